#!/bin/sh
# MANIFEST.setup_cmd: offline; make sure hypothesis is importable by /venv/bin/python.
cd "$(dirname "$0")" || exit 1
if ! /venv/bin/python -c 'import hypothesis' 2>/dev/null; then
  PIP_NO_INDEX=1 /venv/bin/pip install --no-index --find-links /opt/veriftools/wheels hypothesis || exit 1
fi
/venv/bin/python -c 'import hypothesis; print("hypothesis", hypothesis.__version__)'
mkdir -p evidence replays
# atheris (coverage-guided fuzzing tier) next to the check code; optional: fuzz jobs are skipped when it is missing
if [ ! -d .deps/atheris ]; then
  PIP_NO_INDEX=1 /venv/bin/pip install -q --no-index --find-links /opt/veriftools/wheels --target .deps atheris || echo "atheris not installed: fuzz jobs will be skipped"
fi
