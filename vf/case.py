"""Cases are plain JSON data.  bytes are carried as latin-1 `str`.

Helpers: stable hashing, (de)serialisation, and a generic structural shrinker
(delta-debugging over lists / strings / ints / dict values) that works on any
case because `run_case` is a pure function of the case.
"""
import hashlib
import json
import time


def b2s(b):
    return bytes(b).decode("latin-1")


def s2b(s):
    return s.encode("latin-1")


def dumps(case):
    return json.dumps(case, sort_keys=True, ensure_ascii=True, separators=(",", ":"))


def chash(case):
    """64-bit stable hash of a case."""
    return int.from_bytes(hashlib.blake2b(dumps(case).encode(), digest_size=8).digest(), "big")


def hexhash(case):
    return "%016x" % chash(case)


class CaseInvalid(Exception):
    """Raised by run_case when a (shrunk) case is outside the property's domain."""


def _size(x):
    if isinstance(x, (list, tuple)):
        return 1 + sum(_size(i) for i in x)
    if isinstance(x, dict):
        return 1 + sum(_size(v) for v in x.values())
    if isinstance(x, str):
        return 1 + len(x)
    if isinstance(x, bool) or x is None:
        return 1
    if isinstance(x, int):
        return 1 + min(abs(x), 1 << 20).bit_length()
    return 1


def _candidates(x):
    """Yield structurally smaller variants of x (most aggressive first)."""
    if isinstance(x, list):
        n = len(x)
        if n:
            chunk = n // 2
            while chunk >= 1:
                for i in range(0, n, chunk):
                    yield x[:i] + x[i + chunk:]
                chunk //= 2
        for i, v in enumerate(x):
            for c in _candidates(v):
                yield x[:i] + [c] + x[i + 1:]
    elif isinstance(x, dict):
        for k in sorted(x):
            for c in _candidates(x[k]):
                d = dict(x)
                d[k] = c
                yield d
    elif isinstance(x, str):
        n = len(x)
        if n:
            chunk = n // 2
            while chunk >= 1:
                for i in range(0, n, chunk):
                    yield x[:i] + x[i + chunk:]
                chunk //= 2
            # simplify characters
            for i, ch in enumerate(x):
                if ch not in "a0 ":
                    for r in ("a", "0"):
                        yield x[:i] + r + x[i + 1:]
    elif isinstance(x, bool):
        if x:
            yield False
    elif isinstance(x, int):
        if x != 0:
            yield 0
            if abs(x) > 1:
                yield x // 2
                yield x - 1 if x > 0 else x + 1


def shrink(case, still_fails, budget_s=30.0, max_steps=4000):
    """Greedy structural shrink.  `still_fails(case) -> bool` must be total
    (return False for CaseInvalid)."""
    t0 = time.time()
    best = case
    steps = 0
    improved = True
    while improved and time.time() - t0 < budget_s and steps < max_steps:
        improved = False
        for cand in _candidates(best):
            steps += 1
            if time.time() - t0 > budget_s or steps > max_steps:
                break
            if _size(cand) >= _size(best) and dumps(cand) >= dumps(best):
                continue
            try:
                ok = still_fails(cand)
            except CaseInvalid:
                ok = False
            if ok:
                best = cand
                improved = True
                break
    return best
