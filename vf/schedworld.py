"""Scheduled (E3) worlds: the real server + worker pool + client actors under the baton scheduler.

A scenario is JSON data:

  {"adj": {...}, "sndbuf": n, "gran": "sync"|"line", "schedule": {...},
   "apps": [behaviour...],                      # vf.gen.apps DSL, one per request index (cyclic) per connection
   "conns": [{"segments": [str...],             # client sends them at scheduler-chosen instants
              "waits":   [None|"continue"...],  # before sending segment i wait for an interim/final response
              "capacity": None|n,               # fake kernel send buffer (bytes) of the server-side socket
              "drain": "all"|n|"never",         # how much a client read takes; "never": the client stalls
              "drain_stop_after": None|n,       # client stops reading after n bytes ...
              "drain_resume": bool,             # ... and resumes once the server is otherwise quiescent
              "eof": bool,                      # half-close after the last segment
              "reset_after_rx": None|n,         # client resets the connection after having read n bytes
              "faults": {"op:index": errno}}]}  # fault plan on the server-side socket
"""
import errno

from . import simnet, simsched
from .case import s2b
from .gen import apps as A


def make_traced_channel():
    from waitress.channel import HTTPChannel

    class TracedChannel(HTTPChannel):
        _tol = 0
        _cwf = False
        _wc = False
        max_tol = 0

        def __init__(self, server, sock, addr, adj, map=None):
            self.trace = []
            w = simnet.CUR
            self.world = w
            self.sock_fd = sock.fileno()
            HTTPChannel.__init__(self, server, sock, addr, adj, map=map)
            if w is not None:
                w.channels.append(self)

        def _ev(self, what):
            w = self.world
            if w is not None:
                w.chan_events.append((w.sched.steps if w.sched else 0, w.thread_name(), self.sock_fd, what))

        def handle_close(self):
            w = self.world
            if getattr(self, "closed_step", None) is None:
                self.closed_step = w.sched.steps if (w is not None and w.sched) else 0
            return HTTPChannel.handle_close(self)

        def write_soon(self, data):
            n = len(data) if not hasattr(data, "prepare") else data.__len__()
            if n > getattr(self, "max_write", 0):
                self.max_write = n
            return HTTPChannel.write_soon(self, data)

        @property
        def total_outbufs_len(self):
            return self._tol

        @total_outbufs_len.setter
        def total_outbufs_len(self, v):
            self._tol = v
            if v > self.max_tol:
                self.max_tol = v

        @property
        def close_when_flushed(self):
            return self._cwf

        @close_when_flushed.setter
        def close_when_flushed(self, v):
            if v and not self._cwf:
                self._ev("close_when_flushed")
            self._cwf = v

        @property
        def will_close(self):
            return self._wc

        @will_close.setter
        def will_close(self, v):
            if v and not self._wc:
                self._ev("will_close")
            self._wc = v

    return TracedChannel


class TracedMap(dict):
    """socket map that records which thread mutates it"""

    def __init__(self, world_ref):
        dict.__init__(self)
        self.muts = []
        self.world_ref = world_ref

    def _rec(self, op, k):
        w = self.world_ref[0]
        self.muts.append((w.thread_name() if w is not None else "main", op, k))

    def __setitem__(self, k, v):
        self._rec("set", k)
        dict.__setitem__(self, k, v)

    def __delitem__(self, k):
        self._rec("del", k)
        dict.__delitem__(self, k)

    def pop(self, k, *a):
        self._rec("del", k)
        return dict.pop(self, k, *a)


def client_may_proceed(rx, k, methods=None):
    """has the client seen '100 Continue' for request k (0-based), or already its final response?"""
    from .refhttp import response as RESP
    ms = [m.encode() if isinstance(m, str) else m for m in (methods or [])] + [None] * 8
    rs, _u, _p = RESP.parse_responses(rx, ms, eof=False, final_marker=b"x-call")
    finals = 0
    interim_after = False
    for r in rs:
        if r.interim:
            if finals == k:
                interim_after = True
        elif r.complete or r.framing == "close":
            finals += 1
    return finals > k or (finals == k and interim_after)


class Result:
    pass


class SchedRun:
    def __init__(self, scenario, source, record_decisions=False, step_limit=60000, app=None):
        sc = scenario
        self.sc = sc
        self.sched = simsched.Scheduler(source, granularity=sc.get("gran", "sync"), infinite_timeouts=sc.get("infinite_timeouts", True),
                                        step_limit=step_limit, auto_timers=sc.get("auto_timers", 0))
        self.sched.record_decisions = record_decisions
        self.sched.log_events = bool(sc.get("log_events"))
        adj = dict(sc.get("adj") or {})
        adj.setdefault("threads", 1)
        self.app = app if app is not None else A.MultiConnApp(sc.get("apps") or [{"status": "200 OK", "mode": "list", "chunks": ["ok"]}],
                                                            hook=self._app_hook)
        self.app_spans = []   # (conn fd?, idx, "enter"/"exit", step)
        self.stalled_apps = 0
        app_inner = self.app
        run = self

        def wrapped_app(environ, start_response):
            key = environ.get("HTTP_X_CONN", "?")
            idx = environ.get("PATH_INFO")
            run.app_spans.append(("enter", key, idx, run.sched.steps, run.sched.current_name()))
            try:
                it = app_inner(environ, start_response)
            finally:
                run.app_spans.append(("exit", key, idx, run.sched.steps, run.sched.current_name()))
            return it

        self.wref = [None]
        self.tmap = TracedMap(self.wref)
        self.world = simnet.World(wrapped_app, adj=adj, sched=self.sched, sndbuf=sc.get("sndbuf", 1 << 20),
                                  nlisten=sc.get("nlisten", 1), keep_tracebacks=True, map_obj=self.tmap)
        w = self.world
        self.wref[0] = w
        for li, plan in enumerate(sc.get("listener_faults") or []):
            for k, v in (plan or {}).items():
                op, idx = k.split(":")
                w.listeners[li].faults[(op, int(idx))] = v if v in ("EOF", "generic") else getattr(errno, v)
        w.channels = []
        w.chan_events = []
        for srv in w.servers:
            srv.channel_class = make_traced_channel()
        self.conns = []
        self.phase2 = False
        self.late = []
        self.client_state = []
        for ci, cs in enumerate(sc.get("conns", [])):
            if cs.get("late"):
                # connects only after the first quiescence (is the server still accepting?)
                c = simnet.FakeSock(w, ("127.0.0.1", 40000 + ci))
                self.late.append((c, cs.get("listener", 0)))
            else:
                c = w.connect(addr=("127.0.0.1", 40000 + ci), listener=cs.get("listener", 0))
            c.capacity = cs.get("capacity")
            c.client_reads = False
            c.sticky = bool(cs.get("sticky_faults"))
            for k, v in (cs.get("faults") or {}).items():
                op, idx = k.split(":")
                c.faults[(op, int(idx))] = v if v in ("EOF", "generic") else getattr(errno, v)
            self.conns.append(c)
            st = {"sent": 0, "done_sending": False, "stalled": False, "rx_at_stall": None}
            self.client_state.append(st)
        w.start_io()
        for ci, cs in enumerate(sc.get("conns", [])):
            self.sched.spawn(self._sender, (ci,), name="snd%d" % ci)
            if cs.get("drain", "all") != "never":
                self.sched.spawn(self._drainer, (ci,), name="drn%d" % ci)

    # ---- actors
    def _app_hook(self, idx, what, k):
        if what == "stall":
            self.stalled_apps += 1
            self.sched.block(lambda: False, "app.stall")
            return
        if what == "pause":
            self.sched.block(lambda: sum(len(c.client_rx) for c in self.conns) >= k or all(c.closed for c in self.conns), "app.pause")
            return
        self.sched.yield_point("app." + what)

    def _has_response_progress(self, ci, base):
        c = self.conns[ci]
        return len(c.client_rx) > base or c.closed

    def _sender(self, ci):
        cs = self.sc["conns"][ci]
        c = self.conns[ci]
        st = self.client_state[ci]
        segs = cs.get("segments", [])
        waits = cs.get("waits") or []
        for i, seg in enumerate(segs):
            wt = waits[i] if i < len(waits) else None
            if isinstance(wt, list) and wt and wt[0] == "continue":
                # an RFC-compliant client: waits for the interim (or the final) response to request number wt[1]
                k = wt[1]
                self.sched.block(lambda: c.closed or client_may_proceed(bytes(c.client_rx), k, wt[2] if len(wt) > 2 else None), "client.wait-continue")
            elif wt == "continue":
                # a client that waits for 100 Continue (or any response bytes / close) before sending on
                base = st.get("rx_mark", 0)
                self.sched.block(lambda: self._has_response_progress(ci, base), "client.wait-continue")
                st["rx_mark"] = len(c.client_rx)
            elif wt == "quiet":
                self.sched.block(lambda: self.phase2, "client.wait-quiet")   # released by the controller at the first quiescence
            self.sched.yield_point("client.send")
            if c.closed:
                break
            c.inq.append(s2b(seg))
            self.world.progress += 1
            st["sent"] = i + 1
        st["done_sending"] = True
        if cs.get("eof"):
            self.sched.yield_point("client.eof")
            c.in_eof = True
            self.world.progress += 1
        if cs.get("reset_after_send"):
            self.sched.yield_point("client.reset")
            c.in_rst = True
            self.world.progress += 1

    def _drainer(self, ci):
        cs = self.sc["conns"][ci]
        c = self.conns[ci]
        st = self.client_state[ci]
        per = cs.get("drain", "all")
        stop_after = cs.get("drain_stop_after")
        reset_after = cs.get("reset_after_rx")
        while True:
            self.sched.block(lambda: (len(c.kbuf) > 0 and not st["stalled"]) or c.closed, "client.read")
            if c.closed and not c.kbuf:
                return
            self.sched.yield_point("client.read")
            c.client_drain(None if per == "all" else int(per))
            if reset_after is not None and len(c.client_rx) >= reset_after and not c.in_rst:
                c.in_rst = True
                self.world.progress += 1
                return
            if stop_after is not None and len(c.client_rx) >= stop_after and st["rx_at_stall"] is None:
                st["stalled"] = True
                st["rx_at_stall"] = len(c.client_rx)

    # ---- running
    def run(self):
        """run to quiescence; stalled clients that are configured to resume do so once, then run again"""
        reason = self.sched.run()
        self.first_quiescence = self.snapshot()
        resumed = False
        for ci, cs in enumerate(self.sc.get("conns", [])):
            if cs.get("late_error") and not self.conns[ci].closed:
                e = cs["late_error"]
                self.conns[ci].err_pending = e if e == "generic" else getattr(errno, e)
                self.world.progress += 1
                resumed = True
        for c, li in self.late:
            if not self.world.listeners[li].closed:
                self.world.listeners[li].backlog.append(c)
                self.world.progress += 1
                resumed = True
        self.late = []
        for ci, cs in enumerate(self.sc.get("conns", [])):
            st = self.client_state[ci]
            if st["stalled"] and cs.get("drain_resume"):
                st["stalled"] = False
                resumed = True
        for t in self.sched.threads:
            if t.state == "blocked" and t.what == "client.wait-quiet":
                resumed = True
        self.phase2 = True
        if resumed:
            reason = self.sched.run()
        return reason

    def snapshot(self):
        w = self.world
        chans = []
        for ch in w.channels:
            so = w.fds.get(ch.sock_fd)
            chans.append({"sock_writable": bool(so is not None and so.w_ready()), "sock_closed": bool(so is None or so.closed),
                          "max_write": getattr(ch, "max_write", 0), "producer_waits": getattr(ch.outbuf_lock, "nwaits", 0),
                          "fd": ch.sock_fd, "tol": ch.total_outbufs_len, "max_tol": ch.max_tol, "requests": len(ch.requests),
                          "request_partial": ch.request is not None, "will_close": ch.will_close, "cwf": ch.close_when_flushed,
                          "connected": ch.connected, "in_map": ch.sock_fd in w.map, "sent_continue": ch.sent_continue})
        parked = []
        late_waits = []
        for t in self.sched.threads:
            if t.state == "blocked" and t.what == "cond.wait":
                for ch in w.channels:
                    if t.wait_obj is ch.outbuf_lock:
                        parked.append((t.name, ch.sock_fd))
                        cs = getattr(ch, "closed_step", None)
                        if cs is not None and t.wait_step > cs:
                            late_waits.append(ch.sock_fd)
        disp = w.task_dispatcher
        idle_workers = [t.name for t in self.sched.threads if t.state == "blocked" and t.what == "cond.wait" and t.wait_obj is getattr(disp, "queue_cv", None)]
        return {"blocked": self.sched.blocked(), "spin": self.sched.spin, "channels": chans, "parked_producers": parked, "late_waits": late_waits, "idle_workers": idle_workers,
                "queue": len(getattr(w.task_dispatcher, "queue", ())), "steps": self.sched.steps}

    def result(self):
        r = Result()
        w = self.world
        r.snap = self.snapshot()
        r.first = getattr(self, "first_quiescence", r.snap)
        r.conns = []
        for c in self.conns:
            r.conns.append({"rx": bytes(c.client_rx), "pending": bytes(c.kbuf), "closed": c.closed, "close_calls": list(c.close_calls),
                            "send_log": list(c.send_log), "recv_log": list(c.recv_log), "unread_in": sum(len(x) for x in c.inq),
                            "faults_hit": [f for f in w.faults_hit if f[0] == c.fd]})
        r.app = self.app
        r.app_spans = list(self.app_spans)
        r.handle_errors = list(w.handle_errors)
        r.logs = list(w.logs)
        r.tracebacks = list(w.tracebacks)
        r.died = [(t.name, t.died) for t in self.sched.threads if t.died]
        r.threads = [(t.name, t.state, t.what) for t in self.sched.threads]
        r.chan_events = list(w.chan_events)
        r.calllog = list(w.calllog)
        r.preemptions = self.sched.preemptions
        r.trace = list(self.sched.trace)
        r.events = list(self.sched.events)
        r.trigger_pulls = w.trigger_pulls
        r.spin = self.sched.spin
        r.listener_open = [(not l.closed) and (l.fd in w.map) for l in w.listeners]
        r.trigger_in_map = all(getattr(srv.trigger, "_fileno", None) in w.map for srv in w.servers)
        r.map_muts = list(self.tmap.muts)
        r.backlogs = [len(l.backlog) for l in w.listeners]
        r.chan_buffers = []
        for ch in w.channels:
            bufs_open = 0
            for ob in ch.outbufs:
                f = getattr(getattr(ob, "buf", None), "file", None)
                if f is not None and not getattr(f, "closed", True):
                    bufs_open += 1
            r.chan_buffers.append({"fd": ch.sock_fd, "in_map": ch.sock_fd in w.map, "open_outbuf_files": bufs_open, "tol": ch.total_outbufs_len,
                                   "requests": len(ch.requests)})
        r.map_keys = sorted(k for k in w.map)
        return r

    def close(self):
        try:
            self.sched.shutdown()
        finally:
            self.world.close()


def run_scenario(scenario, source, record_decisions=False, app=None):
    """-> (Result, scheduler); raises simsched.Overrun / HarnessError"""
    sr = SchedRun(scenario, source, record_decisions=record_decisions, app=app)
    try:
        sr.run()
        return sr.result(), sr.sched
    finally:
        sr.close()
