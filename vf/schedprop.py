"""Common job plumbing for the schedule-quantified properties (C04, C05, C09, C11, C12, C13, C19).

A property module provides
    FIXED                    list of scenario cases (without "schedule")
    case_strategy()          Hypothesis strategy for whole cases (scenario + schedule)
    run_case_full(case, source=None, record=False) -> (fails, nontrivial, labels, trace, sched)
"""
from . import case as C
from . import schedules as S
from . import simsched
from .runner import derive_seed, hyp_run


class _NoSched:
    trace, decisions, preemptions = [], [], 0


def jobs(mod, tier, seed, quick=(1, 1500, 200, 250, 10), thorough=(2, 30000, 6000, 8000, 16)):
    quick = getattr(mod, "QUICK", quick)
    thorough = getattr(mod, "THOROUGH", thorough)
    bound, max_runs, n_fixed, n_hyp, n_hyp_jobs = quick if tier == "quick" else thorough
    js = []
    for i in range(len(mod.FIXED)):
        heavy = mod.FIXED[i].get("heavy")   # a long scenario: fewer runs of each kind
        js.append({"kind": "systematic", "index": i, "bound": bound, "max_runs": max_runs // 8 if heavy else max_runs})
        js.append({"kind": "fixed_random", "index": i, "n": n_fixed // 4 if heavy else n_fixed, "seed": derive_seed(seed, mod.PID, "f", i)})
        if mod.FIXED[i].get("bound2") and bound < 2:
            # a small scenario whose race needs two deviations from the default schedule: enumerate those too (seed-independent)
            js.append({"kind": "systematic", "index": i, "bound": 2, "max_runs": 5000})
        if mod.FIXED[i].get("stall_runs"):
            # scenarios built for a "stale decision after the lock was released" window: long stalls at synchronisation points
            n = mod.FIXED[i]["stall_runs"] * (1 if tier == "quick" else 12)
            for sh in range(2):
                js.append({"kind": "fixed_stall", "index": i, "n": n // 2, "seed": derive_seed(seed, mod.PID, "s", i, sh)})
    for sh in range(n_hyp_jobs):
        js.append({"kind": "hyp", "n": n_hyp, "seed": derive_seed(seed, mod.PID, "h", sh)})
    return js


def run_job(mod, job, col):
    k = job["kind"]
    if k == "fixed_stall":
        import random
        rnd = random.Random(job["seed"])
        base = {kk: v for kk, v in mod.FIXED[job["index"]].items() if kk not in ("stall_runs", "stall_params", "heavy", "bound2")}
        for _ in range(job["n"]):
            sp = mod.FIXED[job["index"]].get("stall_params") or {}
            spec = {"kind": "stall", "seed": rnd.randrange(10 ** 9), "stalls": rnd.choice([1, 1, 2]), "est_hot": rnd.choice(sp.get("est_hot", [20, 30, 40, 60])),
                    "max_dur": rnd.choice(sp.get("max_dur", [60, 200, 400]))}
            case = dict(base, schedule=spec)
            fs, nt, labels, trace, _s = mod.run_case_full(case)
            if fs and trace is not None:
                case = dict(case, schedule=S.replay_spec(trace))
            col.record(case, fs, nontrivial=nt, labels=set(labels) | {"fixed-scenario", "stall-schedule"})
    elif k == "fixed_random":
        base = {kk: v for kk, v in mod.FIXED[job["index"]].items() if kk not in ("stall_runs", "stall_params", "heavy", "bound2")}

        cnt = [0]

        def onef(spec):
            cnt[0] += 1
            case = dict(base, schedule=spec)
            if cnt[0] % 3 == 0:
                case["gran"] = "line"   # a third of the schedules pre-empt at source-line granularity
            fs, nt, labels, trace, _s = mod.run_case_full(case)
            if fs and trace is not None:
                case = dict(case, schedule=S.replay_spec(trace))
            col.record(case, fs, nontrivial=nt, labels=set(labels) | {"fixed-scenario"})

        hyp_run(S.schedule_strategy(), onef, job["n"], job["seed"])
    elif k == "hyp":
        def one(case):
            try:
                fs, nt, labels, trace, _s = mod.run_case_full(case)
            except C.CaseInvalid:
                col.labels["outside-domain"] += 1
                return
            if fs and trace is not None:
                case = dict(case, schedule=S.replay_spec(trace))
            col.record(case, fs, nontrivial=nt, labels=labels)

        hyp_run(mod.case_strategy(), one, job["n"], job["seed"])
    elif k == "systematic":
        base = {kk: v for kk, v in mod.FIXED[job["index"]].items() if kk not in ("stall_runs", "stall_params", "heavy", "bound2")}

        def runner(src):
            fs, nt, labels, trace, sched = mod.run_case_full(base, source=src, record=True)
            return (sched if sched is not None else _NoSched), (fs, nt, labels)

        n = 0
        for trace, (fs, nt, labels) in simsched.systematic(runner, job["bound"], job["max_runs"]):
            n += 1
            col.record(dict(base, schedule=S.replay_spec(trace)), fs, nontrivial=len(trace) > 0, labels=set(labels) | {"systematic"})
        if n < job["max_runs"]:
            col.exhaustive("every schedule with at most %d deviation(s) from the default scheduler, for the fixed scenarios (sync-level yield points)" % job["bound"])
    else:
        raise ValueError(k)
