"""E3 - the harness owns the schedule.

Real Python threads (the real ThreadedTaskDispatcher.handler_thread, the real wasyncore loop,
client actors) run ONE AT A TIME under a baton.  At every yield point the running thread asks the
schedule source who runs next.  `threading` as seen by waitress.channel / task / trigger is
replaced by a shim whose Lock / RLock / Condition / Thread are scheduler-aware.

Yield points (G0 "sync"): lock acquire/release, condition wait/notify, every fake-socket call
(two per send), select/poll, trigger pull (a pipe write, via os.write hook is not needed: the
pull is followed by lock/socket activity), thread start/exit, application DSL steps.
G1 "line": additionally every source line of the traced waitress files (sys.settrace).

Fairness rule: select/poll entry, a failed try-lock and a timed wait are *yielding* points
(default choice = least recently run other enabled thread).
"""
import _thread
import os
import sys
import threading as _real_threading
import time as _real_time

YIELDING = ("select", "trylock-fail", "timedwait", "sleep", "client.idle")
TRACE_FILES = ("channel.py", "task.py", "server.py", "trigger.py", "buffers.py", "wasyncore.py")


MAIN = "main-controller"
_RUNS = 0


class SimAbort(BaseException):
    """raised at yield points during teardown"""


class HarnessError(Exception):
    pass


class Overrun(HarnessError):
    """step bound exceeded: inconclusive, never a violation"""


class SThread:
    def __init__(self, sched, idx, name, target, args):
        self.sched, self.idx, self.name, self.target, self.args = sched, idx, name, target, args
        self.gate = _thread.allocate_lock()
        self.gate.acquire()
        self.state = "runnable"   # runnable | blocked | done
        self.pred = None
        self.what = None
        self.deadline = None
        self.timed_out = False
        self.last_run = 0
        self.died = None          # exception that killed the thread (other than SimAbort)
        self.real = None
        self.ident = None
        self.daemon = True
        self.last_line = None
        self.wait_obj = None
        self.wait_step = 0

    def __repr__(self):
        return "<T%d %s %s%s>" % (self.idx, self.name, self.state, (":" + str(self.what)) if self.state == "blocked" else "")


# ------------------------------------------------------------------ schedule sources
class Source:
    """default policy: stay on the current thread; at yielding points / forced switches take the least
    recently run other enabled thread"""

    def choose(self, sched, cur, options, kind, yielding):
        if cur in options and not yielding:
            return cur
        return self.forced(sched, cur, [t for t in options if t is not cur] or options)

    def forced(self, sched, cur, options):
        return min(options, key=lambda t: (t.last_run, t.idx))


class Sparse(Source):
    """[(gap, pick), ...]: after `gap` further non-yielding decision points switch to the pick-th other thread"""

    def __init__(self, preempts, forced_picks=()):
        self.preempts = [tuple(p) for p in preempts]
        self.i = 0
        self.count = 0
        self.forced_picks = list(forced_picks)
        self.fi = 0

    def choose(self, sched, cur, options, kind, yielding):
        others = [t for t in options if t is not cur]
        if cur not in options or yielding:
            return self.forced(sched, cur, others or options)
        if self.i < len(self.preempts):
            gap, pick = self.preempts[self.i]
            if self.count >= gap:
                self.i += 1
                self.count = 0
                if others:
                    return others[pick % len(others)]
            self.count += 1
        return cur

    def forced(self, sched, cur, options):
        if self.fi < len(self.forced_picks) and len(options) > 1:
            p = self.forced_picks[self.fi]
            self.fi += 1
            return sorted(options, key=lambda t: t.idx)[p % len(options)]
        return Source.forced(self, sched, cur, options)


class RandomSource(Source):
    def __init__(self, seed, p=0.15):
        import random
        self.rnd = random.Random(seed)
        self.p = p

    def choose(self, sched, cur, options, kind, yielding):
        others = [t for t in options if t is not cur]
        if cur not in options or (yielding and others):
            return self.rnd.choice(sorted(others or options, key=lambda t: t.idx))
        if others and self.rnd.random() < self.p:
            return self.rnd.choice(sorted(others, key=lambda t: t.idx))
        return cur


class HotRandom(Source):
    """random pre-emption concentrated at 'hot' yield kinds (the windows in which a syscall has been issued, a lock was
    just released or the I/O loop is being woken), rare elsewhere; forced choices are random"""

    HOT = ("sock.send", "sock.send.ret", "sock.recv", "lock.release", "trigger.pull", "trigger.pulled", "cond.notify", "sock.close",
           "app.iter", "app.call", "client.read", "client.send")

    def __init__(self, seed, p_hot=0.3, p_cold=0.01):
        import random
        self.rnd = random.Random(seed)
        self.p_hot, self.p_cold = p_hot, p_cold

    def choose(self, sched, cur, options, kind, yielding):
        others = sorted([t for t in options if t is not cur], key=lambda t: t.idx)
        if cur not in options or (yielding and others):
            return self.rnd.choice(others or sorted(options, key=lambda t: t.idx))
        p = self.p_hot if kind in self.HOT else self.p_cold
        if others and self.rnd.random() < p:
            return self.rnd.choice(others)
        return cur


class Stall(Source):
    """long delays at synchronisation points: the k-th 'hot' yield (a lock just released, the trigger about to be pulled, a
    condition notified, a send returned) of the run stalls the thread that reached it for `dur` further decisions - it is not
    scheduled while anything else can run - and everything else follows a light random policy.  Reaches the windows between a
    decision taken under a lock and the action that follows the release ("stale decision"), which need one thread to stand
    still while two or three others make progress."""

    HOT = ("lock.release", "trigger.pull", "cond.notify", "sock.send.ret", "app.iter")

    def __init__(self, seed, stalls=1, est_hot=80, max_dur=200, p=0.05):
        import random
        self.rnd = random.Random(seed)
        self.points = sorted((self.rnd.randrange(0, est_hot), self.rnd.randrange(5, max_dur)) for _ in range(stalls))
        self.hot_seen = 0
        self.stalled = {}      # thread idx -> decisions left
        self.p = p

    def choose(self, sched, cur, options, kind, yielding):
        for k in list(self.stalled):
            self.stalled[k] -= 1
            if self.stalled[k] <= 0:
                del self.stalled[k]
        if kind in self.HOT and cur in options:
            if self.points and self.hot_seen >= self.points[0][0]:
                self.stalled[cur.idx] = self.points.pop(0)[1]
            self.hot_seen += 1
        free = sorted([t for t in options if t.idx not in self.stalled], key=lambda t: t.idx) or sorted(options, key=lambda t: t.idx)
        others = [t for t in free if t is not cur]
        if cur not in free or (yielding and others):
            return self.rnd.choice(others or free)
        if others and self.rnd.random() < self.p:
            return self.rnd.choice(others)
        return cur


class PCT(Source):
    """probabilistic concurrency testing: random priorities, d priority change points"""

    def __init__(self, seed, depth=2, est_steps=400):
        import random
        self.rnd = random.Random(seed)
        self.prio = {}
        self.change = sorted(self.rnd.randrange(1, est_steps) for _ in range(depth))
        self.n = 0
        self.low = 0

    def _p(self, t):
        if t.idx not in self.prio:
            self.prio[t.idx] = self.rnd.random() + 1.0
        return self.prio[t.idx]

    def choose(self, sched, cur, options, kind, yielding):
        self.n += 1
        if self.change and self.n >= self.change[0] and cur in options:
            self.change.pop(0)
            self.low -= 1
            self.prio[cur.idx] = self.low  # demote the running thread
        others = [t for t in options if t is not cur]
        if yielding and others:
            return max(others, key=lambda t: (self._p(t), -t.idx))
        return max(options, key=lambda t: (self._p(t), -t.idx))


class Replay(Source):
    """follow a recorded list of thread indices (one per recorded decision), then the default policy"""

    def __init__(self, choices, tail=None):
        self.choices = list(choices)
        self.i = 0
        self.tail = tail or Source()
        self.diverged = False

    def choose(self, sched, cur, options, kind, yielding):
        if self.i < len(self.choices):
            want = self.choices[self.i]
            self.i += 1
            for t in options:
                if t.idx == want:
                    return t
            self.diverged = True
        return self.tail.choose(sched, cur, options, kind, yielding)

    def forced(self, sched, cur, options):
        return self.choose(sched, cur, options, "forced", True)


# ------------------------------------------------------------------ the scheduler
class Scheduler:
    def __init__(self, source=None, step_limit=40000, granularity="sync", infinite_timeouts=True, auto_timers=0,
                 watchdog_s=60.0, spin_k=50):
        self.source = source or Source()
        self.step_limit = step_limit
        self.granularity = granularity
        self.infinite_timeouts = infinite_timeouts
        self.auto_timers = auto_timers
        self.watchdog_s = watchdog_s
        self.spin_k = spin_k
        self.threads = []
        self.by_ident = {}
        self.current = None
        self.ctl_gate = _thread.allocate_lock()
        self.ctl_gate.acquire()
        self.abort = False
        self.steps = 0
        self.trace = []          # thread idx chosen at every decision with >= 2 options
        self.decisions = []      # (options idx tuple, chosen idx, cur idx or None, preemptive?) for systematic search
        self.record_decisions = False
        self.overrun = False
        self.spin = False
        self._spin_state = None
        self._spin_n = 0
        self.world = None
        self.events = []         # (step, thread name, kind) sparse log for diagnostics / labels
        self.log_events = False
        self.preemptions = 0
        self.timer_fires = 0
        self.reason = None

    # ---- identity
    def me(self):
        return self.by_ident.get(_thread.get_ident())

    def current_name(self):
        t = self.me()
        return t.name if t else "main"

    # ---- thread creation
    def spawn(self, target, args=(), name=None):
        t = SThread(self, len(self.threads), name or "t%d" % len(self.threads), target, args)
        self.threads.append(t)
        real = _real_threading.Thread(target=self._run_thread, args=(t,), name="sim-" + t.name, daemon=True)
        t.real = real
        real.start()
        return t

    def _run_thread(self, t):
        t.ident = _thread.get_ident()
        self.by_ident[t.ident] = t
        t.gate.acquire()            # wait for the baton
        try:
            if self.abort:
                raise SimAbort()
            if self.granularity == "line":
                sys.settrace(self._tracer)
            t.target(*t.args)
        except SimAbort:
            pass
        except BaseException as e:
            import traceback
            t.died = (type(e).__name__, str(e)[:200], traceback.format_exc()[-800:])
        finally:
            sys.settrace(None)
            t.state = "done"
            self._thread_exit(t)

    def _thread_exit(self, t):
        if self.abort:
            self.current = None
            self.ctl_gate.release()
            return
        nxt = self._pick(None, "exit", True)
        if nxt is None:
            self._to_controller("quiescent")
        else:
            self._resume(nxt)

    # ---- tracing (G1)
    def _tracer(self, frame, event, arg):
        fn = frame.f_code.co_filename
        if fn.endswith(TRACE_FILES) and "/waitress/" in fn:
            return self._line
        return None

    def _line(self, frame, event, arg):
        if event == "line" and not self.abort:
            # CPython 3.12 may report the same line of the same frame twice (adaptive specialisation differs between
            # the first and later executions): only a change of (frame, line) is a yield point, so runs are replayable
            t = self.me()
            key = (id(frame), frame.f_lineno)
            if t is not None and t.last_line != key:
                t.last_line = key
                self.yield_point("line", None)
        elif event == "return":
            t = self.me()
            if t is not None:
                t.last_line = None
        return self._line

    # ---- enabledness
    def _enabled(self, t):
        if t.state == "runnable":
            return True
        if t.state == "blocked":
            try:
                return bool(t.pred())
            except Exception:
                return False
        return False

    def enabled(self):
        return [t for t in self.threads if self._enabled(t)]

    # ---- decisions
    def _pick(self, cur, kind, yielding):
        options = self.enabled()
        if not options:
            return None
        if len(options) == 1:
            return options[0]
        choice = self.source.choose(self, cur, options, kind, yielding)
        self.trace.append(choice.idx)
        if self.record_decisions:
            pre = cur is not None and cur in options and not yielding and choice is not cur
            self.decisions.append((tuple(t.idx for t in options), choice.idx, cur.idx if cur is not None and cur in options else None, yielding))
        if cur is not None and cur in options and not yielding and choice is not cur:
            self.preemptions += 1
        return choice

    def _resume(self, nxt):
        nxt.last_run = self.steps
        self.current = nxt
        nxt.gate.release()

    def _to_controller(self, reason):
        self.reason = reason
        self.current = None
        self.ctl_gate.release()

    def _park(self, t):
        t.gate.acquire()
        if self.abort:
            raise SimAbort()

    # ---- the yield point
    def yield_point(self, kind, obj=None):
        t = self.me()
        if t is None:
            return
        if self.abort:
            raise SimAbort()
        self.steps += 1
        if self.log_events:
            self.events.append((self.steps, t.name, kind))
        if self.steps > self.step_limit:
            self.overrun = True
            self._to_controller("overrun")
            self._park(t)
            return
        yielding = kind in YIELDING
        if kind == "select":
            self._check_spin(t)
        nxt = self._pick(t, kind, yielding)
        if nxt is None or nxt is t:
            return
        self._resume(nxt)
        self._park(t)

    def _check_spin(self, t):
        w = self.world
        state = (w.progress if w is not None else 0, tuple(x.state for x in self.threads))
        others = [x for x in self.threads if x is not t and self._enabled(x)]
        if state == self._spin_state and not others:
            self._spin_n += 1
            if self._spin_n >= self.spin_k:
                self.spin = True
                self.block(lambda: False, "spin")
        else:
            self._spin_state = state
            self._spin_n = 0

    # ---- blocking
    def block(self, pred, what, timeout=None, obj=None):
        """block the calling sim thread until pred() holds; returns False on (simulated) timeout"""
        t = self.me()
        if t is not None:
            t.wait_obj = obj
            t.wait_step = self.steps
        if t is None:
            if pred():
                return True
            raise HarnessError("non-sim thread would block on %s" % what)
        while True:
            if self.abort:
                raise SimAbort()
            if pred():
                return True
            self.steps += 1
            t.state, t.pred, t.what = "blocked", pred, what
            t.deadline = None if timeout is None else (self.world.clock.now + timeout if self.world else timeout)
            t.timed_out = False
            nxt = self._pick(t, "block:" + what, True)
            if nxt is None:
                nxt = self._fire_timer_auto()
            if nxt is None:
                self._to_controller("quiescent")
            elif nxt is not t:
                self._resume(nxt)
            if nxt is not t:
                self._park(t)
            t.state, t.pred = "runnable", None
            if t.timed_out:
                t.timed_out = False
                return False

    def _fire_timer_auto(self):
        if self.timer_fires >= self.auto_timers:
            return None
        return self.fire_next_timer()

    def fire_next_timer(self):
        """advance the clock to the earliest deadline of a timed wait and wake that thread"""
        cand = [x for x in self.threads if x.state == "blocked" and x.deadline is not None]
        if not cand:
            return None
        x = min(cand, key=lambda y: (y.deadline, y.idx))
        if self.world is not None and x.deadline > self.world.clock.now:
            self.world.clock.now = x.deadline
        x.timed_out = True
        x.state = "runnable"
        x.pred = None
        self.timer_fires += 1
        return x

    def sleep(self, s):
        self.block(lambda: False, "sleep", timeout=s)

    def select_block(self, sel, r, w, timeout):
        if self.infinite_timeouts:
            timeout = None

        def ready():
            rr, ww = sel._ready(r, w)
            return bool(rr or ww)

        ok = self.block(ready, "select", timeout)
        return sel._ready(r, w) if ok else None

    # ---- controller side
    def run(self):
        """hand the baton to the sim threads until quiescence / overrun; returns the reason"""
        import gc
        if not getattr(self, "_gc_off", False):
            # finalisers (e.g. wasyncore.file_wrapper.__del__) must not run traced code at arbitrary instants
            global _RUNS
            _RUNS += 1
            if _RUNS % 100 == 1:
                gc.collect()
            gc.disable()
            self._gc_off = True
        if self.current is not None:
            raise HarnessError("run() while a sim thread holds the baton")
        nxt = self._pick(None, "start", True)
        if nxt is None:
            nxt = self._fire_timer_auto()
        if nxt is None:
            self.reason = "quiescent"
            return self.reason
        self._resume(nxt)
        if not self.ctl_gate.acquire(timeout=self.watchdog_s):
            raise HarnessError("watchdog: no hand-over within %s s (current=%r, threads=%r)" % (self.watchdog_s, self.current, self.threads))
        if self.overrun:
            raise Overrun("step bound %d exceeded" % self.step_limit)
        return self.reason

    def shutdown(self):
        import gc
        gc.enable()
        self.abort = True
        for t in self.threads:
            if t.state != "done":
                self.current = t
                t.gate.release()
                if not self.ctl_gate.acquire(timeout=self.watchdog_s):
                    raise HarnessError("watchdog during teardown of %r" % t)
        for t in self.threads:
            if t.real is not None:
                t.real.join(timeout=10)
                if t.real.is_alive():
                    raise HarnessError("thread %r did not exit" % t)

    def blocked(self):
        return [(t.name, t.what) for t in self.threads if t.state == "blocked"]

    def threading_shim(self):
        return ThreadingShim(self)


# ------------------------------------------------------------------ threading shim
class SimLock:
    def __init__(self, sched):
        self.s = sched
        self.owner = None

    def acquire(self, blocking=True, timeout=-1):
        s = self.s
        me = s.me()
        if me is None:
            if self.owner is None:
                self.owner = MAIN
                return True
            if not blocking:
                return False
            raise HarnessError("controller thread would block on a sim lock")
        s.yield_point("lock.acquire", self)
        if self.owner is None:
            self.owner = me
            return True
        if not blocking:
            s.yield_point("trylock-fail", self)
            return False
        ok = s.block(lambda: self.owner is None, "lock", None if timeout is None or timeout < 0 else timeout)
        if not ok:
            return False
        self.owner = me
        return True

    def release(self):
        self.owner = None
        if not self.s.abort:
            self.s.yield_point("lock.release", self)

    def locked(self):
        return self.owner is not None

    def __enter__(self):
        self.acquire()
        return self

    def __exit__(self, *a):
        self.release()

    # Condition support
    def _is_owned(self):
        me = self.s.me() or MAIN
        return self.owner is me

    def _release_save(self):
        self.owner = None
        return 1

    def _acquire_restore(self, saved):
        me = self.s.me()
        self.s.block(lambda: self.owner is None, "lock(reacquire)")
        self.owner = me


class SimRLock(SimLock):
    def __init__(self, sched):
        SimLock.__init__(self, sched)
        self.count = 0

    def acquire(self, blocking=True, timeout=-1):
        s = self.s
        me = s.me() or MAIN
        if self.owner is me:
            self.count += 1
            return True
        if me is MAIN:
            if self.owner is None:
                self.owner, self.count = me, 1
                return True
            if not blocking:
                return False
            raise HarnessError("controller thread would block on a sim rlock")
        s.yield_point("lock.acquire", self)
        if self.owner is None:
            self.owner, self.count = me, 1
            return True
        if not blocking:
            s.yield_point("trylock-fail", self)
            return False
        ok = s.block(lambda: self.owner is None, "rlock", None if timeout is None or timeout < 0 else timeout)
        if not ok:
            return False
        self.owner, self.count = me, 1
        return True

    def release(self):
        me = self.s.me() or MAIN
        if self.owner is not me:
            if self.s.abort:
                return
            raise RuntimeError("cannot release un-acquired lock")
        self.count -= 1
        if self.count == 0:
            self.owner = None
            if not self.s.abort:
                self.s.yield_point("lock.release", self)

    def _release_save(self):
        c = self.count
        self.count = 0
        self.owner = None
        return c

    def _acquire_restore(self, saved):
        me = self.s.me() or MAIN
        self.s.block(lambda: self.owner is None, "rlock(reacquire)")
        self.owner, self.count = me, saved


class SimCondition:
    def __init__(self, sched, lock=None):
        self.s = sched
        self._lock = lock if lock is not None else SimRLock(sched)
        self.waiters = []
        self.acquire = self._lock.acquire
        self.release = self._lock.release

    def __enter__(self):
        self._lock.acquire()
        return self

    def __exit__(self, *a):
        self._lock.release()

    def wait(self, timeout=None):
        if not self._lock._is_owned():
            raise RuntimeError("cannot wait on un-acquired lock")
        w = {"n": False}
        self.nwaits = getattr(self, "nwaits", 0) + 1
        self.waiters.append(w)
        saved = self._lock._release_save()
        try:
            ok = self.s.block(lambda: w["n"], "cond.wait", timeout, obj=self)
            if not ok and w in self.waiters:
                self.waiters.remove(w)
        finally:
            if not self.s.abort:
                self._lock._acquire_restore(saved)
        return ok

    def notify(self, n=1):
        if not self._lock._is_owned():
            raise RuntimeError("cannot notify on un-acquired lock")
        for w in self.waiters[:n]:
            w["n"] = True
        del self.waiters[:n]
        self.s.yield_point("cond.notify", self)

    def notify_all(self):
        self.notify(len(self.waiters))

    notifyAll = notify_all


class SimThreadObj:
    def __init__(self, sched, target=None, name=None, args=(), kwargs=None, daemon=None):
        self.s, self.target, self.name, self.args = sched, target, name, args
        self.daemon = daemon
        self.st = None

    def start(self):
        self.st = self.s.spawn(self.target, self.args, self.name)
        self.s.yield_point("thread.start", None)

    def is_alive(self):
        return self.st is not None and self.st.state != "done"

    def join(self, timeout=None):
        if self.st is not None:
            self.s.block(lambda: self.st.state == "done", "join", timeout)


class ThreadingShim:
    def __init__(self, sched):
        self.s = sched

    def Lock(self):
        return SimLock(self.s)

    def RLock(self):
        return SimRLock(self.s)

    def Condition(self, lock=None):
        return SimCondition(self.s, lock)

    def Thread(self, *a, **k):
        return SimThreadObj(self.s, *a, **k)

    def __getattr__(self, name):
        return getattr(_real_threading, name)


# ------------------------------------------------------------------ bounded systematic enumeration
def systematic(run_with_source, bound, max_runs=100000):
    """stateless DFS over decision points, *delay bounded*: every schedule that deviates at most `bound`
    times from the default deterministic scheduler (stay on the current thread; at yielding points and
    forced switches take the least recently run enabled thread).

    run_with_source(source) must build a fresh world, run it with a scheduler created with
    record_decisions=True and this source, and return (scheduler, result).  Yields (trace, result)."""
    stack = [([], 0)]
    runs = 0
    while stack and runs < max_runs:
        prefix, ndev = stack.pop()
        sched, result = run_with_source(Replay(prefix))
        runs += 1
        yield list(sched.trace), result
        if ndev >= bound:
            continue
        dec = sched.decisions
        for i in range(len(prefix), len(dec)):
            opts, chosen = dec[i][0], dec[i][1]
            for alt in opts:
                if alt != chosen:
                    stack.append(([d[1] for d in dec[:i]] + [alt], ndev + 1))
