import sys

if __name__ == "__main__":
    from vf import runner

    sys.exit(runner.main(["check"] + sys.argv[1:]))
