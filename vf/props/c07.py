"""C07 - The WSGI environ is the exact PEP 3333 image of the request.

Canonically well-formed requests (grammar-generated) x configuration are run through the real
stack; the environ the application received is compared, key by key, with an independent model
built from the reference parse (vf.refhttp.request) and the configuration.
"""
from hypothesis import strategies as st

from .. import case as C
from ..case import b2s, s2b
from ..gen import http as G
from ..refhttp import request as REQ
from ..runner import derive_seed, hyp_run
from ..world import observe

PID = "C07"
LEVEL = "exploration"
TECHNIQUE = ("model-based property testing: grammar-generated canonical requests x configurations through the real "
             "stack; full environ and wsgi.input compared with an independent PEP 3333 reference model built from the "
             "reference RFC 9112 parse")
RULE = ("case = (canonical request bytes, url_prefix, url_scheme, server_name, unix/tcp peer, inbuf_overflow); header "
        "names incl. dash/underscore aliases and CGI-shadowing names, repeats, obs-text, inner whitespace; targets in "
        "origin/absolute/asterisk/double-slash form with valid and invalid percent-escapes; empty / Content-Length / "
        "chunked bodies incl. sizes across the 8 KiB and inbuf_overflow spill thresholds; non-trivial = the request has a "
        "repeated field, an alias pair, a CGI-shadowing name, a percent-escape, a matching non-empty url_prefix, or a body; "
        "distinct by case hash")
ASSUMPTIONS = [
    "clear_untrusted_proxy_headers is switched off so that every client header is expected in the environ (C15/C16 own the proxy keys)",
    "authority-form targets, control bytes and non-ASCII bytes in the target are outside 'canonically well-formed'",
    "SCRIPT_NAME is url_prefix whenever one is configured, PATH_INFO loses the prefix only when the path equals it or continues with '/' (docs/arguments.rst)",
]

SHADOW = {"CONTENT_LENGTH", "CONTENT_TYPE", "REMOTE_ADDR", "REMOTE_HOST", "SERVER_NAME", "SERVER_PORT", "SCRIPT_NAME",
          "PATH_INFO", "QUERY_STRING", "REQUEST_METHOD", "SERVER_PROTOCOL", "SERVER_SOFTWARE", "WSGI.INPUT"}


def pct_decode(s):
    out = bytearray()
    b = s2b(s)
    i = 0
    hexd = b"0123456789abcdefABCDEF"
    while i < len(b):
        if b[i] == 0x25 and i + 2 < len(b) + 0 and i + 2 <= len(b) - 1 + 0 and b[i + 1] in hexd and b[i + 2] in hexd:
            out.append(int(b[i + 1:i + 3], 16))
            i += 3
        else:
            out.append(b[i])
            i += 1
    return b2s(out)


def split_target(t):
    """-> (path, query) of an origin / absolute / asterisk / double-slash target (own splitter)"""
    frag = t.find("#")
    if frag >= 0:
        t = t[:frag]
    q = t.find("?")
    query = ""
    if q >= 0:
        t, query = t[:q], t[q + 1:]
    if t.startswith("//"):
        path = t
    elif "://" in t and not t.startswith("/"):
        rest = t.split("://", 1)[1]
        slash = rest.find("/")
        path = rest[slash:] if slash >= 0 else ""
    else:
        path = t
    return pct_decode(path), query


def model_environ(it, cfg, unix):
    env = {}
    path, query = split_target(b2s(it.target))
    if path.startswith("/"):
        path = "/" + path.lstrip("/")
    prefix = cfg.get("url_prefix_norm", "")
    script = prefix
    if prefix:
        if path == prefix:
            path = ""
        elif path.startswith(prefix + "/"):
            path = path[len(prefix):]
    env["REQUEST_METHOD"] = b2s(it.method)
    env["SERVER_PROTOCOL"] = "HTTP/" + b2s(it.version)
    env["SCRIPT_NAME"] = script
    env["PATH_INFO"] = path
    env["QUERY_STRING"] = query
    env["REQUEST_URI"] = b2s(it.target)
    env["wsgi.url_scheme"] = cfg.get("url_scheme", "http")
    # server-defined variables come from the configuration (defaults read from the code under test): what the property fixes is that
    # they are the server's and cannot be replaced by a client header, not which default strings the server ships with
    from waitress.adjustments import Adjustments
    env["SERVER_NAME"] = cfg.get("server_name", Adjustments.server_name)
    env["SERVER_SOFTWARE"] = Adjustments.ident
    if unix:
        env["REMOTE_ADDR"] = env["REMOTE_HOST"] = "localhost"
        env["REMOTE_PORT"] = "None"
        env["SERVER_PORT"] = "/nonexistent/verif.sock"
    else:
        env["REMOTE_ADDR"] = env["REMOTE_HOST"] = "127.0.0.1"
        env["REMOTE_PORT"] = "40000"
        env["SERVER_PORT"] = "8080"
    hdr = {}
    for name, value in it.fields:
        n = b2s(name)
        if "_" in n:
            continue
        key = n.upper().replace("-", "_")
        v = b2s(value)
        hdr[key] = hdr[key] + ", " + v if key in hdr else v
    if it.framing == "chunked":
        hdr.pop("TRANSFER_ENCODING", None)
        hdr["CONTENT_LENGTH"] = str(len(it.body))
    for k, v in hdr.items():
        kk = k if k in ("CONTENT_LENGTH", "CONTENT_TYPE") else "HTTP_" + k
        env[kk] = v
    return env


def norm_prefix(p):
    p = p.strip()
    if p:
        p = "/" + p.lstrip("/").rstrip("/")
    return p


def compare_call(it, call, cfg, unix, fail, tag):
    """the environ / wsgi.input of one application call against the model of its own message"""
    got = dict(call["environ"])
    want = model_environ(it, cfg, unix)
    for k in sorted(set(got) | set(want)):
        g, w = got.get(k), want.get(k)
        if g != w:
            if k.startswith("HTTP_") or k in ("CONTENT_LENGTH", "CONTENT_TYPE"):
                kind = "header-missing" if g is None else ("header-unexpected" if w is None else "header-value")
                fail(tag + kind, "%s: environ has %r, model says %r" % (k, g, w))
            else:
                fail(tag + "var/" + k, "%s: environ has %r, model says %r" % (k, g, w))
    for k, v in got.items():
        if any(ord(ch) > 255 for ch in v):
            fail(tag + "not-latin1", "%s=%r" % (k, v))
    for k, tname in call["env_types"].items():
        if k.startswith("HTTP_") and tname != "str":
            fail(tag + "not-native-str", "%s is %s" % (k, tname))
    if call["body"] != it.body:
        fail(tag + "body", "wsgi.input yielded %d bytes, framed body has %d" % (len(call["body"]), len(it.body)))
    if "CONTENT_LENGTH" in got and got["CONTENT_LENGTH"].isdigit() and int(got["CONTENT_LENGTH"]) != len(call["body"]):
        fail(tag + "content-length-vs-body", "CONTENT_LENGTH %s but wsgi.input yielded %d bytes" % (got["CONTENT_LENGTH"], len(call["body"])))


def run_case_full(case):
    stream = s2b(case["stream"] + (case.get("stream2") or ""))
    cfg = dict(case.get("cfg") or {})
    unix = bool(case.get("unix"))
    items = REQ.parse_stream(stream)
    want_n = 2 if case.get("stream2") else 1
    if len(items) != want_n or any(i.verdict != REQ.VALID or i.has_obs_fold for i in items) or items[-1].end != len(stream):
        raise C.CaseInvalid("not canonical request(s)")
    for i in items:
        if not all(0x21 <= c <= 0x7E for c in i.target) or b"[" in i.target or b"@" in i.target:
            raise C.CaseInvalid("target outside the canonical domain")
    it = items[0]
    adj = {"clear_untrusted_proxy_headers": False}
    for k in ("url_prefix", "url_scheme", "server_name", "inbuf_overflow"):
        if k in cfg:
            adj[k] = cfg[k]
    cfg["url_prefix_norm"] = norm_prefix(cfg.get("url_prefix", ""))
    cut = case.get("cut")
    if cut is not None and (not isinstance(cut, int) or not (0 < cut < len(stream))):
        raise C.CaseInvalid("cut")
    # the environ is the image of the message however its bytes arrived: optionally delivered in two reads
    o = observe([stream[:cut], stream[cut:]] if cut else [stream], adj=adj, eof=False, unix=unix)
    fails = []

    def fail(sig, detail):
        fails.append({"sig": "C07/" + sig, "detail": detail})

    labels = set()
    if cut:
        labels.add("two-reads")
    if o.exception or o.handle_errors:
        fail("raises", "%r %r" % (o.exception, o.handle_errors))
        return fails, True, labels
    # a second request on the same connection is served unless the first one ends the connection
    expected_calls = 1 if (len(items) == 1 or items[0].close_after) else 2
    if len(o.calls) != expected_calls:
        fail("not-delivered", "canonical request(s) produced %d application calls, expected %d; responses %r" % (
            len(o.calls), expected_calls, [r.status for r in o.responses]))
        return fails, True, labels
    if expected_calls == 2:
        labels.add("two-requests-one-connection")
    for idx in range(expected_calls):
        compare_call(items[idx], o.calls[idx], cfg, unix, fail, "" if idx == 0 else "second-request/")
    # classification
    names = [b2s(n) for n, _v in it.fields]
    keys = [n.upper().replace("-", "_") for n in names]
    nontrivial = False
    if len(set(keys)) < len(keys):
        labels.add("repeat-or-alias")
        nontrivial = True
    if any("_" in n for n in names):
        labels.add("underscore-name")
        nontrivial = True
    if any(k in SHADOW for k in keys):
        labels.add("cgi-shadowing-name")
        nontrivial = True
    if b"%" in it.target:
        labels.add("percent-escape")
        nontrivial = True
    if cfg["url_prefix_norm"]:
        labels.add("url_prefix")
        p, _q = split_target(b2s(it.target))
        if p == cfg["url_prefix_norm"] or p.startswith(cfg["url_prefix_norm"]):
            labels.add("url_prefix-textual-match")
            nontrivial = True
    if it.framing != "none":
        labels.add("body:" + it.framing)
        nontrivial = True
        if len(it.body) >= 8192:
            labels.add("body>=8192")
    if unix:
        labels.add("unix")
    return fails, nontrivial, labels


def run_case(case):
    if not isinstance(case.get("stream"), str) or not isinstance(case.get("stream2") or "", str):
        raise C.CaseInvalid("stream")
    try:
        s2b(case["stream"] + (case.get("stream2") or ""))
    except UnicodeEncodeError:
        raise C.CaseInvalid("latin-1")
    return run_case_full(case)[0]


# ---------------------------------------------------------------- generation
SEG = ["a", "app", "apple", "app.json", "b", "%41", "%2f", "%2F", "%zz", "%", "%4", "x;p=1", "a:b", "~", "a%20b", "%e2%82%ac", "%00", "application", ""]


@st.composite
def target_strategy(draw):
    form = draw(st.sampled_from(["origin", "origin", "origin", "absolute", "asterisk", "double"]))
    if form == "asterisk":
        return "*"
    segs = draw(st.lists(st.sampled_from(SEG), min_size=0, max_size=4))
    path = "/" + "/".join(segs)
    if form == "double":
        path = "/" + path
    q = draw(st.sampled_from(["", "", "?", "?a=1", "?a=%41&b", "?x#y", "#frag", "?a?b", "?%zz"]))
    if form == "absolute":
        auth = draw(st.sampled_from(["http://example.com", "https://h", "http://example.com:8080", "ftp://h:21"]))
        if not segs and draw(st.booleans()):
            return auth + q.replace("#frag", "")
        return auth + path + q
    return path + q


def case_strategy():
    @st.composite
    def build(draw):
        big = st.sampled_from([8190, 8192, 8193, 9000, 70000]).map(lambda n: ("0123456789abcdef" * (n // 16 + 1))[:n])
        bodies = st.one_of(G.body_bytes(64), G.body_bytes(64), big)
        toks = draw(G.request(targets=target_strategy(), body_strategy=bodies, obs_fold=False))
        cfg = {}
        if draw(st.integers(0, 2)) > 0:
            cfg["url_prefix"] = draw(st.sampled_from(["/app", "/a", "app/", "/a/b", "//app//", "/%41"]))
        if draw(st.booleans()):
            cfg["url_scheme"] = draw(st.sampled_from(["https", "http"]))
        if draw(st.booleans()):
            cfg["server_name"] = draw(st.sampled_from(["example.org", "srv"]))
        if draw(st.integers(0, 3)) == 0:
            cfg["inbuf_overflow"] = draw(st.sampled_from([1, 100, 8192, 9000]))
        case = {"stream": G.render(toks), "cfg": cfg, "unix": draw(st.integers(0, 4)) == 0}
        if draw(st.integers(0, 2)) == 0:
            # a second request on the same connection: its environ is the image of *its* message (nothing carried over)
            case["stream2"] = G.render(draw(G.request(targets=target_strategy(), body_strategy=G.body_bytes(64), obs_fold=False)))
        total = len(case["stream"]) + len(case.get("stream2") or "")
        how = draw(st.integers(0, 5))
        if how == 0 and total > 1:
            case["cut"] = draw(st.integers(1, total - 1))
        elif how in (1, 2) and case.get("stream2") and len(case["stream"]) > 4:
            # around the end of the first message (inside its last CRLF / one byte into the next message)
            case["cut"] = len(case["stream"]) + draw(st.sampled_from([-3, -2, -1, 1, 2]))
        return case

    return build()


def jobs(tier, seed):
    n = 1500 if tier == "quick" else 50000
    return [{"kind": "hyp", "n": n, "seed": derive_seed(seed, "c07", sh)} for sh in range(16)] + [{"kind": "prefix_table"}]


def run_job(job, col):
    def one(case):
        try:
            fs, nt, labels = run_case_full(case)
        except C.CaseInvalid:
            col.labels["generated-outside-domain"] += 1
            return
        col.record(case, fs, nontrivial=nt, labels=labels)

    if job["kind"] == "hyp":
        hyp_run(case_strategy(), one, job["n"], job["seed"])
    elif job["kind"] == "prefix_table":
        paths = ["/", "/app", "/app/", "/app/x", "/apple", "/apple/pie", "/app.json", "/ap", "/application?x=1", "//app/x", "/APP", "/a/app",
                 "/app%2fx", "/%61pp/x", "*", "http://h/app/x", "http://h/apple", "/app?x", "/a", "/a/b", "/a/b/c", "/a/bc"]
        for prefix in ["", "/app", "/a", "/a/b", "app", "/app/"]:
            for p in paths:
                for unix in (False, True):
                    one({"stream": "GET %s HTTP/1.1\r\nHost: h\r\n\r\n" % p, "cfg": {"url_prefix": prefix} if prefix else {}, "unix": unix})
        col.exhaustive("url_prefix x path table (%d prefixes x %d paths x unix/tcp)" % (6, len(paths)))
