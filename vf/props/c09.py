"""C09 - Application failures are contained and the iterable is always closed.

Fault enumeration: application behaviour shapes x an exception at every step (call, start_response,
each iteration, each write, close, return) x 7 exception classes x expose_tracebacks x
log_socket_errors, and a client disconnect at every send index, in the scheduled world with the real
worker pool (so that 'the worker survives' is observable).  A bystander connection is served afterwards.
"""
import sys

from hypothesis import strategies as st

from .. import case as C
from .. import schedules as S
from .. import simsched
from ..case import s2b
from ..gen import apps as A
from ..refhttp import response as RESP
from ..runner import derive_seed, hyp_run
from ..schedworld import run_scenario

PID = "C09"
LEVEL = "fault_enumeration"
TECHNIQUE = ("fault enumeration over an application-behaviour DSL: an exception of each of 7 classes at every step of 12 behaviour "
             "shapes x expose_tracebacks x log_socket_errors, and a client disconnect at every send index, with the real worker pool "
             "under the baton scheduler (deterministic + sampled schedules), failure x late-arriving pipelined request races under hot-spot "
             "schedules, two queued file_wrapper responses with failing close(); wire / close()-count / liveness oracle")
RULE = ("case = (behaviour shape, fault point, exception class, expose_tracebacks, log_socket_errors) or (behaviour shape, "
        "client disconnect after the n-th send / after n received bytes), optional schedule; non-trivial = the planned fault "
        "was actually hit (the step existed / the send index was reached); distinct by case hash")
ASSUMPTIONS = ["a wrapped file must be closed at least once (repeated close() of a file is idempotent); the iterable's close() exactly once",
               "'before any output' is judged from the wire of that connection, not from internal flags",
               "failures inside C extensions that kill the interpreter are out of reach"]
EXCS = ["ValueError", "OSError", "ConnectionResetError", "BrokenPipeError", "KeyboardInterrupt", "SystemExit", "GeneratorExit"]
SHAPES = [
    {"mode": "list", "chunks": ["hello"], "declared_cl": 5},
    {"mode": "list", "chunks": ["ab", "cd"]},
    {"mode": "purelist", "chunks": ["hello"]},
    {"mode": "gen", "chunks": ["ab", "cd", "ef"]},
    {"mode": "gen", "chunks": ["ab", "cd"], "late_start": True},
    {"mode": "gen", "chunks": ["", "ab", ""], "declared_cl": 2},
    {"mode": "write", "chunks": ["ab", "cd"], "n_write": 2},
    {"mode": "write", "chunks": ["ab", "cd", "ef"], "n_write": 1, "declared_cl": 6},
    {"mode": "fw", "chunks": [], "fw": {"seekable": True, "len": 300, "start": 0, "closeable": True, "block": 64}},
    {"mode": "fw", "chunks": [], "fw": {"seekable": False, "len": 200, "start": 0, "closeable": True, "block": 64}},
    {"mode": "gen", "chunks": ["x" * 150, "y" * 150, "z" * 150]},
    {"mode": "list", "chunks": [], "declared_cl": 0},
]


def fault_points(shape):
    pts = [["call"], ["start_response"], ["close"], ["return"]]
    if shape["mode"] != "fw":
        pts += [["iter", k] for k in range(len(shape["chunks"]) + 1)]
    if shape["mode"] == "write":
        pts += [["write", k] for k in range(shape.get("n_write", 0))]
    return pts


def req(ci, i, version="1.1", method="GET"):
    return "%s /c%d/r%d HTTP/%s\r\nHost: h\r\nX-Conn: %d\r\n\r\n" % (method, ci, i, version, ci)


def to_scenario(case):
    beh = dict(SHAPES[case["shape"]], status="200 OK")
    if case.get("method") == "HEAD" and beh["mode"] == "fw":
        beh["fw_on_head"] = True
    if case.get("fw_close_raises") and beh["mode"] == "fw":
        beh["fw"] = dict(beh["fw"], close_raises=True)     # the wrapped file's own close() fails (an application failure, too)
    if case.get("raise_at"):
        beh["raise_at"] = case["raise_at"]
        beh["exc"] = case.get("exc", "ValueError")
        if case.get("recall"):
            beh["recall"] = True
    adj = {"threads": case.get("workers", 1), "expose_tracebacks": bool(case.get("expose")), "log_socket_errors": case.get("log_socket_errors", True)}
    m_ = case.get("method", "GET")
    victim = {"segments": [req(0, 0, method=m_), req(0, 1, method=m_)] if case.get("split") else [req(0, 0, method=m_) + req(0, 1, method=m_)], "capacity": case.get("capacity"),
              "drain": case.get("drain", "all")}
    if case.get("early") == "eof":
        victim["eof"] = True
    elif case.get("early") == "reset":
        victim["reset_after_send"] = True
    if case.get("lookahead"):
        adj["channel_request_lookahead"] = case["lookahead"]
    if case.get("reset_after_rx") is not None:
        victim["reset_after_rx"] = case["reset_after_rx"]
    if case.get("send_fault") is not None:
        victim["faults"] = {"send:%d" % case["send_fault"]: case.get("send_errno", "EPIPE")}
    by = {"segments": [req(1, 0), req(1, 1)], "waits": [None, "quiet"]}
    ok = {"status": "200 OK", "mode": "list", "chunks": ["ok"], "declared_cl": 2}
    second = ok
    if case.get("second") is not None:
        # the pipelined second request of the victim connection gets a behaviour shape of its own (two responses queued at once)
        second = dict(SHAPES[case["second"]], status="200 OK")
    return {"adj": adj, "gran": case.get("gran", "sync"), "apps": {"0": [beh, second], "*": [ok]}, "sndbuf": case.get("sndbuf", 1 << 20), "infinite_timeouts": True,
            "conns": [victim, by]}, beh


def validate(case):
    if not isinstance(case.get("shape"), int) or not (0 <= case["shape"] < len(SHAPES)):
        raise C.CaseInvalid("shape")
    ra = case.get("raise_at")
    if ra is not None and ra not in fault_points(SHAPES[case["shape"]]):
        raise C.CaseInvalid("raise_at")
    if case.get("method", "GET") not in ("GET", "HEAD"):
        raise C.CaseInvalid("method")
    if case.get("exc", "ValueError") not in EXCS or case.get("gran", "sync") not in ("sync", "line") or case.get("workers", 1) not in (1, 2):
        raise C.CaseInvalid("exc")
    if case.get("second") is not None and (not isinstance(case["second"], int) or not (0 <= case["second"] < len(SHAPES)) or case.get("raise_at")):
        raise C.CaseInvalid("second")
    for k in ("reset_after_rx", "send_fault", "capacity"):
        if case.get(k) is not None and (not isinstance(case[k], int) or case[k] < (0 if k == "send_fault" else 1)):
            raise C.CaseInvalid(k)
    if case.get("early") not in (None, "eof", "reset") or case.get("lookahead", 0) not in (0, 1, 2):
        raise C.CaseInvalid("early")
    if case.get("send_errno", "EPIPE") not in ("EPIPE", "ECONNRESET", "ENOTCONN", "EBADF"):
        raise C.CaseInvalid("errno")
    if case.get("drain", "all") != "all" and (not isinstance(case["drain"], int) or case["drain"] < 1):
        raise C.CaseInvalid("drain")


_ok_wire = {}


def fault_free_wire(shape_idx, method="GET"):
    if (shape_idx, method) not in _ok_wire:
        r, _s = run_scenario(to_scenario({"shape": shape_idx, "method": method})[0], simsched.Source())
        _ok_wire[(shape_idx, method)] = r.conns[0]["rx"]
    return _ok_wire[(shape_idx, method)]


def run_case_full(case, source=None, record=False):
    validate(case)
    sc, beh = to_scenario(case)
    if source is None:
        try:
            source = S.make_source(case.get("schedule"))
        except Exception:
            raise C.CaseInvalid("schedule")
    try:
        r, sched = run_scenario(sc, source, record_decisions=record)
    except simsched.Overrun:
        return [], False, {"overrun"}, None, None
    fails = []

    def fail(sig, detail):
        fails.append({"sig": "C09/" + sig, "detail": detail})

    exc = case.get("exc", "ValueError") if case.get("raise_at") else None
    tag = "%s@%s" % (exc, case["raise_at"][0]) if exc else ("disconnect" if (case.get("reset_after_rx") is not None or case.get("send_fault") is not None or case.get("early")) else "none")
    app0 = r.app.apps.get("0")
    hit = bool(app0 and app0.faults_hit) if exc else True
    # --- workers and loop alive, still serving
    for name, d in r.died:
        fail("thread-died/%s/%s" % (name.rstrip("0123456789-"), d[0]), "%s died: %s (%s)" % (name, d[0], tag))
    workers_alive = [t for t in r.threads if t[0].startswith("waitress") and t[1] != "done"]
    if len(workers_alive) != case.get("workers", 1):
        fail("worker-lost/%s" % (exc or "disconnect"), "%d of %d workers alive (%s)" % (len(workers_alive), case.get("workers", 1), tag))
    by = r.conns[1]
    rs, _u, _p = RESP.parse_responses(by["rx"], [b"GET", b"GET"], eof=by["closed"], final_marker=b"x-call")
    if len([x for x in rs if x.complete and x.status == 200]) != 2:
        fail("server-not-serving-afterwards/%s" % (exc or "disconnect"), "the other connection got %d of 2 responses after the failure (%s); blocked %r" % (
            len([x for x in rs if x.complete]), tag, r.snap["blocked"]))
    if not all(r.listener_open):
        fail("listener-closed", tag)
    vic = r.conns[0]
    wire = vic["rx"] + vic["pending"]
    if exc and hit:
        good = fault_free_wire(case["shape"], case.get("method", "GET"))
        first_good = good   # response of request 0 followed by response of request 1
        vm = s2b(case.get("method", "GET"))
        rs0, _u0, prob0 = RESP.parse_responses(wire, [vm, vm], eof=vic["closed"], final_marker=b"x-call")
        finals = [x for x in rs0 if not x.interim]
        # what did the application hand over before failing?  judged from the wire: does it start with an application response?
        app_started = bool(finals) and bool(finals[0].get(b"x-call"))
        recalled = bool(case.get("recall")) and case["raise_at"][0] in ("iter", "write")
        if not app_started and not recalled:
            # before any output: exactly one complete 500, then EOF
            if len(finals) != 1 or finals[0].status != 500 or not finals[0].complete:
                fail("no-500-before-output/%s" % exc, "application failed before any output (%s) but the wire has %r (closed=%s)" % (
                    tag, [(x.status, x.complete) for x in finals], vic["closed"]))
            if not vic["closed"]:
                fail("not-closed-after-failure/%s" % exc, "connection still open after the failure (%s); wire %d bytes; blocked %r" % (tag, len(wire), r.snap["blocked"]))
        elif app_started and case["raise_at"][0] != "close" or (app_started and case["raise_at"][0] == "close"):
            # after output began: no further bytes, then EOF -- the wire is a prefix of the fault-free response to request 0 only
            if len(finals) > 1:
                fail("response-after-failure/%s" % exc, "a further response follows the failed one (%s)" % tag)
            if not vic["closed"]:
                fail("not-closed-after-failure/%s" % exc, "connection still open after a failure in mid-response (%s); blocked %r" % (tag, r.snap["blocked"]))
        if not case.get("expose") and (b"Traceback (most recent call last)" in wire or b"app fault" in wire):
            fail("traceback-leaked/%s" % exc, "traceback / exception text on the wire although expose_tracebacks is off (%s)" % tag)
    # --- close() exactly once for every iterable handed over; wrapped files closed once
    if app0:
        for idx, kind in app0.returned.items():
            n = app0.closes.get(idx, 0)
            if kind == "iter" and n != 1:
                fail("iterable-close-count/%d/%s" % (n, (exc or "disconnect")), "iterable of request %d closed %d times (%s)" % (idx, n, tag))
        for idx, f in app0.files.items():
            # closing a file again is idempotent; what the statement demands is that it does get closed
            if getattr(f, "close", None) is not None and app0.returned.get(idx) == "fw" and f.closed_count < 1:
                fail("file-never-closed/%s" % (exc or "disconnect"), "wrapped file of request %d was never closed (%s)" % (idx, tag))
    labels = {"shape:%d" % case["shape"], "fault:" + tag, "expose:%s" % bool(case.get("expose")), "lse:%s" % case.get("log_socket_errors", True)}
    if hit and tag != "none":
        labels.add("fault-hit")
    return fails, hit and tag != "none", labels, r.trace, sched


def run_case(case):
    return run_case_full(case)[0]


def enum_cases():
    for si, shape in enumerate(SHAPES):
        yield {"shape": si}
        yield {"shape": si, "method": "HEAD"}
        for pt in fault_points(shape):
            yield {"shape": si, "method": "HEAD", "raise_at": pt, "exc": "ValueError"}
        for pt in fault_points(shape):
            for exc in EXCS:
                for expose in (False, True):
                    for lse in (True, False):
                        yield {"shape": si, "raise_at": pt, "exc": exc, "expose": expose, "log_socket_errors": lse}
            if pt[0] in ("iter", "write"):
                yield {"shape": si, "raise_at": pt, "exc": "ValueError", "recall": True}


def disconnect_cases():
    for si, shape in enumerate(SHAPES):
        r, _s = run_scenario(to_scenario({"shape": si, "capacity": 40, "drain": 16})[0], simsched.Source())
        nsend = len(r.conns[0]["send_log"])
        total = len(r.conns[0]["rx"])
        for k in range(nsend + 1):
            for errno_ in ("EPIPE", "ECONNRESET"):
                yield {"shape": si, "send_fault": k, "send_errno": errno_, "capacity": 40, "drain": 16}
        for n in sorted(set([1, 10, 50, 100, 150, 200, max(1, total - 1)])):
            yield {"shape": si, "reset_after_rx": n, "capacity": 40, "drain": 16}
            yield {"shape": si, "reset_after_rx": n, "capacity": 40, "drain": 16, "method": "HEAD"}
            yield {"shape": si, "reset_after_rx": n, "capacity": 40, "drain": 16, "workers": 2}
    # two responses queued on one connection when it is torn down (the second request is pipelined), wrapped files whose close() fails
    for si in (8, 9, 3):
        for sj in (8, 9, 3):
            for cr in (False, True):
                for n in (1, 10, 60, 200, 400):
                    yield {"shape": si, "second": sj, "fw_close_raises": cr, "reset_after_rx": n, "capacity": 40, "drain": 16}
                for k in (0, 1, 2, 4, 8):
                    yield {"shape": si, "second": sj, "fw_close_raises": cr, "send_fault": k, "send_errno": "EPIPE", "capacity": 40, "drain": 16}


def race_cases():
    """the second request of the victim arrives in a read of its own, so that it can still be unread when the failure is handled:
    'the connection is then closed' has to hold for every interleaving of the I/O thread with the worker that handles the failure"""
    for si, pt in ((0, ["call"]), (3, ["iter", 0]), (3, ["iter", 1]), (6, ["write", 0]), (0, ["start_response"]), (8, ["return"])):
        for exc in ("ValueError", "OSError", "SystemExit"):
            for la in (0, 1, 2):
                yield {"shape": si, "raise_at": pt, "exc": exc, "split": True, "lookahead": la, "log_socket_errors": exc != "OSError"}


def early_cases():
    for si in range(len(SHAPES)):
        for early in ("eof", "reset"):
            for la in (1, 2):
                yield {"shape": si, "early": early, "lookahead": la}


def case_strategy():
    @st.composite
    def build(draw):
        si = draw(st.integers(0, len(SHAPES) - 1))
        case = {"shape": si, "gran": draw(st.sampled_from(["sync", "line"])), "schedule": draw(S.schedule_strategy()),
                "workers": draw(st.sampled_from([1, 2])), "method": draw(st.sampled_from(["GET", "GET", "GET", "HEAD"]))}
        kind = draw(st.sampled_from(["exc", "exc", "reset", "sendfault", "early", "early"]))
        if kind == "early":
            case.update(early=draw(st.sampled_from(["eof", "reset"])), lookahead=draw(st.sampled_from([1, 2])))
            return case
        if kind == "exc":
            case["split"] = draw(st.booleans())
            case["lookahead"] = draw(st.sampled_from([0, 1, 2]))
        if kind != "exc" and draw(st.booleans()):
            case["second"] = draw(st.integers(0, len(SHAPES) - 1))
            case["fw_close_raises"] = draw(st.booleans())
        if kind == "exc":
            case.update(raise_at=draw(st.sampled_from(fault_points(SHAPES[si]))), exc=draw(st.sampled_from(EXCS)), expose=draw(st.booleans()),
                        log_socket_errors=draw(st.booleans()))
        elif kind == "reset":
            case.update(reset_after_rx=draw(st.integers(1, 400)), capacity=draw(st.sampled_from([20, 40, 100])), drain=draw(st.sampled_from([8, 16, "all"])))
        else:
            case.update(send_fault=draw(st.integers(0, 12)), send_errno=draw(st.sampled_from(["EPIPE", "ECONNRESET", "ENOTCONN", "EBADF"])),
                        capacity=draw(st.sampled_from([20, 40, 100])), drain=draw(st.sampled_from([8, 16, "all"])))
        return case

    return build()


def jobs(tier, seed):
    js = [{"kind": "enum", "shard": s, "nshards": 12} for s in range(12)] + [{"kind": "disconnect", "shard": s, "nshards": 2} for s in range(2)]
    js.append({"kind": "early", "n": 40 if tier == "quick" else 1500, "seed": derive_seed(seed, "c09e")})
    for sh in range(4):
        js.append({"kind": "early_sys", "shard": sh, "nshards": 4, "bound": 1 if tier == "quick" else 2, "max_runs": 400 if tier == "quick" else 6000})
    for i in range(4):
        js.append({"kind": "race_sys", "index": i, "bound": 2 if tier == "quick" else 3, "max_runs": 5000 if tier == "quick" else 60000})
    for sh in range(4):
        js.append({"kind": "race", "n": 30 if tier == "quick" else 600, "seed": derive_seed(seed, "c09r", sh), "shard": sh, "nshards": 4})
    n = 150 if tier == "quick" else 5000
    for sh in range(8 if tier == "quick" else 16):
        js.append({"kind": "hyp", "n": n, "seed": derive_seed(seed, "c09", sh)})
    return js


def run_job(job, col):
    def one(case):
        try:
            fs, nt, labels, trace, _s = run_case_full(case)
        except C.CaseInvalid:
            col.labels["outside-domain"] += 1
            return
        if fs and trace is not None and case.get("schedule"):
            case = dict(case, schedule=S.replay_spec(trace))
        col.record(case, fs, nontrivial=nt, labels=labels)

    if job["kind"] == "enum":
        for i, c in enumerate(enum_cases()):
            if i % job["nshards"] == job["shard"]:
                one(c)
        col.exhaustive("every fault point x 7 exception classes x expose_tracebacks x log_socket_errors for 12 behaviour shapes (deterministic schedule)")
    elif job["kind"] == "early":
        import random
        rnd = random.Random(job["seed"])
        for c in early_cases():
            one(c)
            for _ in range(job["n"] // 8):
                one(dict(c, schedule={"kind": "hot", "seed": rnd.randrange(10 ** 9), "p_hot": 0.35, "p_cold": 0.02}))
    elif job["kind"] == "early_sys":
        # client gone (EOF / reset) right after sending, read-ahead 1..2: every schedule with <= bound deviations from the default one
        for i, base in enumerate(early_cases()):
            if i % job["nshards"] != job["shard"]:
                continue

            def runner_(src, base=base):
                fs, nt, labels, trace, sched = run_case_full(base, source=src, record=True)
                return sched, (fs, nt, labels)

            for trace, (fs, nt, labels) in simsched.systematic(runner_, job["bound"], job["max_runs"]):
                col.record(dict(base, schedule=S.replay_spec(trace)), fs, nontrivial=nt, labels=set(labels) | {"early-systematic"})
    elif job["kind"] == "race_sys":
        # every schedule with at most `bound` deviations from the default one, for four failure x late-request scenarios
        base = [{"shape": 0, "raise_at": ["call"], "exc": "ValueError", "split": True, "lookahead": 1},
                {"shape": 3, "raise_at": ["iter", 1], "exc": "ValueError", "split": True, "lookahead": 1},
                {"shape": 6, "raise_at": ["write", 0], "exc": "OSError", "split": True, "lookahead": 2, "log_socket_errors": False},
                {"shape": 0, "raise_at": ["start_response"], "exc": "SystemExit", "split": True, "lookahead": 1}][job["index"]]

        def runner_(src):
            fs, nt, labels, trace, sched = run_case_full(base, source=src, record=True)
            return sched, (fs, nt, labels)

        n = 0
        for trace, (fs, nt, labels) in simsched.systematic(runner_, job["bound"], job["max_runs"]):
            n += 1
            col.record(dict(base, schedule=S.replay_spec(trace)), fs, nontrivial=nt, labels=set(labels) | {"race-systematic"})
        if n < job["max_runs"]:
            col.exhaustive("every schedule with <= %d deviations from the default scheduler for 4 failure x late-arriving-request scenarios" % job["bound"])
    elif job["kind"] == "race":
        import random
        rnd = random.Random(job["seed"])
        for i, c in enumerate(race_cases()):
            if i % job["nshards"] != job["shard"]:
                continue
            one(c)
            for j in range(job["n"]):
                one(dict(c, gran="line" if j % 3 == 2 else "sync", schedule={"kind": "hot", "seed": rnd.randrange(10 ** 9), "p_hot": 0.35, "p_cold": 0.02}))
    elif job["kind"] == "disconnect":
        for i, c in enumerate(disconnect_cases()):
            if i % job["nshards"] == job["shard"]:
                one(c)
        col.exhaustive("client disconnect (EPIPE / ECONNRESET) at every send index, and reset after n received bytes, for 12 behaviour shapes")
    else:
        hyp_run(case_strategy(), one, job["n"], job["seed"])
