"""C06 - Oversize and malformed input is refused totally: error response, close, no crash.

Boundary sweeps (-1/0/+1 around both limits, complete and unterminated, 3 framings, 4 recv sizes),
oversize tokens and generated malformed streams, run through the real stack; oracles: totality
(no exception reaches the last-resort handler, run terminates, no per-case hang), limit direction
with intervals, exactly one well-formed error response then EOF, bounded consumption after the limit.
"""
import signal

from hypothesis import strategies as st

from .. import case as C
from ..case import b2s, s2b
from ..gen import http as G
from ..refhttp import request as REQ
from ..runner import derive_seed, hyp_run
from ..world import observe, adj_default

PID = "C06"
LEVEL = "exploration"
TECHNIQUE = ("boundary-sweep + generated-input robustness testing against a reference parser with limit intervals: "
             "totality / termination, 431-413 direction, exactly-one well-formed error response then close, and "
             "bounded input consumption after the limit is crossed; refused message x pipelined followers x read-ahead under sampled "
             "thread schedules (real worker pool, baton scheduler); coverage-guided atheris campaign")
RULE = ("case = (byte stream, adjustments incl. both limits and recv_bytes); enumerated: heads of strict length L-1/L/L+1 "
        "around max_request_header_size x leading blank lines x terminated/unterminated, bodies of length B-1/B/B+1 around "
        "max_request_body_size x {Content-Length, chunked in 1..3 chunks} x recv sizes {1,3,64,8192}; oversize tokens "
        "(numbers of up to 10000 digits, unterminated control lines/trailers, broken IPv6 targets); generated malformed "
        "pipelines under random small limits; non-trivial = some message is within 2 bytes of a limit, or is refused, or "
        "contains an oversize/mutated token; distinct by case hash")
ASSUMPTIONS = [
    "limit direction is judged with intervals: must-refuse when the strict head length / decoded body length reaches the limit, "
    "must-not-refuse only when the size incl. leading blank lines / chunk framing is below it",
    "hang oracle: a single case (<= 64 KiB input) running longer than 20 s wall-clock is reported as a hang (typical case: < 5 ms)",
    "default channel_request_lookahead, single-thread world",
    "a Content-Length of more than 4300 digits (beyond CPython's int conversion limit) may be refused with 400 instead of 413",
]
ERR = (400, 413, 431, 501)
HANG_S = 20


class Hang(BaseException):   # not an Exception: broad "except Exception" clauses in the code under test must not swallow the watchdog
    pass


def _alarm(signum, frame):
    raise Hang()


def is_app(r):
    return bool(r.get(b"x-call"))


def decoded_cross_offset(stream, it, limit):
    """offset in the stream of the byte with which the decoded chunked body reaches `limit` (None if never)"""
    p = it.head_end
    got = 0
    n = len(stream)
    while p < n:
        le = stream.find(b"\r\n", p)
        if le < 0:
            return None
        line = stream[p:le]
        semi = line.find(b";")
        sz = line if semi < 0 else line[:semi]
        try:
            size = int(sz, 16)
        except ValueError:
            return None
        p = le + 2
        if size == 0:
            return None
        if got + size >= limit:
            off = p + (limit - got) - 1
            return off if off < n else None
        got += size
        p += size + 2
    return None


def check(stream, adj, o):
    fails = []

    def fail(sig, detail):
        fails.append({"sig": "C06/" + sig, "detail": detail})

    # (a) totality
    if o.exception:
        fail("raises/%s" % o.exception[0], "exception escaped the poll turn: %s: %s" % (o.exception[0], o.exception[1]))
    if any(et == "Hang" for _c, et, _v, _w in o.handle_errors):
        return [{"sig": "C06/hang", "detail": "a %d-byte input kept the parsing code busy for more than %d s" % (len(stream), HANG_S)}], {"hang"}
    for cls, et, ev, where in o.handle_errors:
        fail("raises/%s@%s" % (et, where.split(",")[1].strip() if "," in where else "?"),
             "%s reached the last-resort handler of %s: %s (%s)" % (et, cls, ev, where.strip()[:160]))
    if o.spin:
        fail("spin", "the loop spins without making progress (%d bytes pending)" % o.pending_out)
    if fails:
        return fails, {"raised"}
    labels = set()
    max_h = adj.get("max_request_header_size", adj_default("max_request_header_size"))
    max_b = adj.get("max_request_body_size", adj_default("max_request_body_size"))
    items = REQ.parse_stream(stream)
    o.reparse_tolerant([it.method or it.lex_method for it in items])
    finals = [r for r in o.responses if not r.interim]
    # (c) every server-generated error response is well formed, announces closing, and is followed by EOF
    for i, r in enumerate(finals):
        if is_app(r):
            continue
        labels.add("refused:%d" % r.status)
        if r.status not in ERR:
            fail("error-status/%d" % r.status, "server-generated response with status %d" % r.status)
        if not r.complete:
            fail("error-response-incomplete", "error response not complete on the wire: %r" % o.problem)
        if i != len(finals) - 1:
            fail("response-after-error", "%d response(s) after the error response" % (len(finals) - 1 - i))
        if not o.closed:
            fail("not-closed-after-error", "connection still open after error response %d" % r.status)
    if o.problem and finals and finals[-1].complete:
        fail("stray-bytes", "bytes after the last complete response: %s" % o.problem)
    # (b) limit direction
    ri = 0
    cross = None   # stream offset with which a limit is strictly crossed
    for k, it in enumerate(items):
        r = finals[ri] if ri < len(finals) else None
        avail_strict = (it.head_end if it.head_end else len(stream)) - it.msg_start
        avail_total = (it.head_end if it.head_end else len(stream)) - it.start
        must431 = avail_strict >= max_h
        may431 = avail_total >= max_h
        must413 = may413 = False
        if it.head_end is not None and not must431 and it.framing == "chunked":
            must413 = len(it.body) >= max_b
            wire = (it.end - it.head_end) if it.end else (len(stream) - it.head_end)
            may413 = wire >= max_b
        # declared length
        cls = [v for (n, v) in it.fields if n.lower() == b"content-length"]
        if it.head_end is not None and it.framing in ("cl", "none") and len(cls) == 1 and cls[0].isdigit() and it.verdict in (REQ.VALID, REQ.GRAY, REQ.INCOMPLETE) \
                and not it.start_line_gray and not it.body_unchecked:
            d = cls[0].lstrip(b"0")
            v = int(d or b"0") if len(d) < 4000 else 10 ** 4000
            if v > 0 and v >= max_b:
                must413 = may413 = True
                if len(d) > 4300:
                    it.notes.append("cl-beyond-int-conversion")  # 400 is accepted too (guard, see ASSUMPTIONS)
        for v in cls:
            d = v.strip(b" \t").lstrip(b"0")
            if d.isdigit() and (len(d) > 3000 or int(d) >= max_b):
                may413 = True   # whatever else is odd about the message, refusing a declared oversize body is legitimate
        if must431 or must413:
            labels.add("over-limit")
            if r is None:
                fail("limit-not-enforced/no-response", "message %d reaches a limit (hdr %d/%d, 413=%s) but got no response" % (k, avail_strict, max_h, must413))
            elif is_app(r):
                fail("limit-not-enforced/delivered/%s" % ("431" if must431 else "413"),
                     "message %d reaches %s but was delivered to the application" % (k, "max_request_header_size (%d >= %d)" % (avail_strict, max_h) if must431 else "max_request_body_size %d" % max_b))
            else:
                allowed = set()
                if must431 or may431:
                    allowed.add(431)
                if must413 or may413:
                    allowed.add(413)
                if it.verdict in (REQ.MUST_REFUSE, REQ.GRAY) or it.notes:
                    allowed.update((400, 501))   # something else is wrong with it too: any refusal will do
                if r.status not in allowed:
                    fail("limit-wrong-status/%d" % r.status, "message %d over a limit got %d, expected one of %r" % (k, r.status, sorted(allowed)))
            # where is the limit strictly crossed?
            if must431:
                cross = it.msg_start + max_h - 1
            elif it.framing == "chunked":
                cross = decoded_cross_offset(stream, it, max_b)
            else:
                cross = it.head_end - 1
            break
        if r is None:
            break
        if not is_app(r):
            if it.verdict in (REQ.MUST_REFUSE, REQ.GRAY) or it.notes:
                break   # the message is refused for a reason of its own: which of the error statuses it gets is not fixed by the statement
            if r.status == 431 and not may431:
                fail("431-below-limit", "message %d: head of %d bytes (limit %d) refused with 431" % (k, avail_total, max_h))
            if r.status == 413 and not may413:
                fail("413-below-limit", "message %d refused with 413 below max_request_body_size %d" % (k, max_b))
            break
        ri += 1
        if it.end is None or it.verdict in (REQ.INCOMPLETE, REQ.MUST_REFUSE):
            break
        if ri == len(finals) and o.closed:
            break   # the server closed after this response (request asked for it / HTTP/1.0): nothing further is owed
    # (d) consumption after the limit was crossed: at most one further data-bearing recv
    if cross is not None and cross < len(stream):
        cum = 0
        after = 0
        crossed = False
        for _th, nb in o.recv_log:
            if nb == 0:
                continue
            if crossed:
                after += 1
            cum += nb
            if not crossed and cum > cross:
                crossed = True
        if crossed and after > 1:
            fail("consumes-after-limit", "%d further reads after the read in which the limit was crossed (offset %d of %d)" % (after, cross, len(stream)))
        labels.add("cross-checked")
    return fails, labels


def run_case_full(case):
    stream = s2b(case["stream"])
    if len(stream) > 400000:
        raise C.CaseInvalid("too long")
    adj = dict(case.get("adj") or {})
    for k_, lo in (("recv_bytes", 1), ("max_request_body_size", 1), ("max_request_header_size", 1)):
        if k_ in adj and (not isinstance(adj[k_], int) or adj[k_] < lo):
            raise C.CaseInvalid(k_)
    segs = [s2b(x) for x in G.split_at(case["stream"], case.get("cuts") or [])]
    old = signal.signal(signal.SIGALRM, _alarm)
    signal.alarm(HANG_S)
    try:
        try:
            o = observe(segs, adj=adj, eof=case.get("eof", True), nonquiescence_is_observation=True)
        finally:
            signal.alarm(0)
            signal.signal(signal.SIGALRM, old)
    except Hang:
        from .. import simnet
        simnet.CUR = None
        return [{"sig": "C06/hang", "detail": "a %d-byte input kept the parsing code busy for more than %d s" % (len(stream), HANG_S)}], True, {"hang"}
    fails, labels = check(stream, adj, o)
    nontrivial = bool(labels & {"over-limit", "raised"}) or any(l.startswith("refused") for l in labels) or case.get("near", False)
    return fails, nontrivial, labels


def run_case(case):
    if case.get("sched"):
        return run_sched(case)[0]
    if not isinstance(case.get("stream"), str):
        raise C.CaseInvalid("stream")
    try:
        s2b(case["stream"])
    except UnicodeEncodeError:
        raise C.CaseInvalid("latin-1")
    return run_case_full(case)[0]


# ---------------------------------------------------------------- generation
RECVS = [1, 3, 64, 8192]


def head_of_length(n, target="/h", terminated=True):
    """a valid head (start-line + one padded field) of exactly n bytes incl. the final CRLFCRLF"""
    base = "GET %s HTTP/1.1\r\nX-Pad: " % target
    tail = "\r\n\r\n"
    k = n - len(base) - len(tail)
    if k < 0:
        # too small for a field: pad the target instead
        base = "GET /"
        tail = " HTTP/1.1\r\n\r\n"
        k = n - len(base) - len(tail)
        if k < 0:
            return None
    s = base + "p" * k + tail
    return s if terminated else s[:-2]


def sweep_header():
    for max_h in (30, 64, 100, 257):
        for d in (-2, -1, 0, 1, 2):
            for blanks in (0, 1, 2):
                for term in (True, False):
                    h = head_of_length(max_h + d, terminated=True)
                    if h is None:
                        continue
                    if not term:
                        h = h[:-4] + "pppp"  # same length, no terminator yet
                    for rb in RECVS:
                        yield {"stream": "\r\n" * blanks + h + (G.FOLLOWER if term else ""), "near": True,
                               "adj": {"max_request_header_size": max_h, "recv_bytes": rb}}
        # long unterminated head, several times the limit
        for rb in RECVS:
            yield {"stream": "GET /" + "x" * (max_h * 4), "near": True, "adj": {"max_request_header_size": max_h, "recv_bytes": rb}}


def chunked_of(body, nchunks):
    out = ""
    n = len(body)
    if n == 0:
        return "0\r\n\r\n"
    step = max(1, (n + nchunks - 1) // nchunks)
    for i in range(0, n, step):
        part = body[i:i + step]
        out += "%x\r\n%s\r\n" % (len(part), part)
    return out + "0\r\n\r\n"


def sweep_body():
    for max_b in (1, 5, 16, 100):
        for d in (-2, -1, 0, 1, 2):
            n = max_b + d
            if n < 0:
                continue
            body = ("b" * n)
            for rb in RECVS:
                adj = {"max_request_body_size": max_b, "recv_bytes": rb}
                yield {"stream": "POST /cl HTTP/1.1\r\nContent-Length: %d\r\n\r\n%s" % (n, body) + G.FOLLOWER, "near": True, "adj": adj}
                yield {"stream": "POST /cl0 HTTP/1.1\r\nContent-Length: %d\r\n\r\n" % n, "near": True, "adj": adj}
                for nch in (1, 2, 3):
                    yield {"stream": "POST /ch HTTP/1.1\r\nTransfer-Encoding: chunked\r\n\r\n" + chunked_of(body, nch) + G.FOLLOWER,
                           "near": True, "adj": adj}
                yield {"stream": "POST /ch HTTP/1.1\r\nTransfer-Encoding: chunked\r\n\r\n%x\r\n%s" % (n + 50, body), "near": True, "adj": adj}


def oversize_tokens():
    big = [10, 30, 100, 4299, 4300, 4301, 5000, 10000]
    for n in big:
        yield {"stream": "POST / HTTP/1.1\r\nContent-Length: " + "1" * n + "\r\n\r\n", "near": True, "adj": {}}
        yield {"stream": "POST / HTTP/1.1\r\nContent-Length: " + "0" * n + "3\r\n\r\nabc" + G.FOLLOWER, "near": True, "adj": {}}
        yield {"stream": "POST / HTTP/1.1\r\nTransfer-Encoding: chunked\r\n\r\n" + "f" * n + "\r\n", "near": True, "adj": {}}
        yield {"stream": "POST / HTTP/1.1\r\nTransfer-Encoding: chunked\r\n\r\n" + "0" * n + "3\r\nabc\r\n0\r\n\r\n" + G.FOLLOWER, "near": True, "adj": {}}
        yield {"stream": "POST / HTTP/1.1\r\nTransfer-Encoding: chunked\r\n\r\n3;" + "e" * n, "near": True, "adj": {"max_request_body_size": 2000}}
        yield {"stream": "POST / HTTP/1.1\r\nTransfer-Encoding: chunked\r\n\r\n3;a=\"" + "q" * n, "near": True, "adj": {"max_request_body_size": 20000}}
        for tail in ("\r\nabc\r\n0\r\n\r\n", "\x01\"\r\nabc\r\n0\r\n\r\n", ";b\r\nabc\r\n0\r\n\r\n"):
            yield {"stream": "POST / HTTP/1.1\r\nTransfer-Encoding: chunked\r\n\r\n3;a=\"" + "q" * min(n, 5000) + tail, "near": True, "adj": {}}
            yield {"stream": "POST / HTTP/1.1\r\nTransfer-Encoding: chunked\r\n\r\n3;a=\"" + "q\\q" * min(n, 2000) + tail, "near": True, "adj": {}}
            yield {"stream": "POST / HTTP/1.1\r\nTransfer-Encoding: chunked\r\n\r\n3" + ";a=b" * min(n, 2000) + ";" + tail, "near": True, "adj": {}}
        yield {"stream": "POST / HTTP/1.1\r\nTransfer-Encoding: chunked\r\n\r\n3;a=\"" + "\\\"" * n + "\r\nabc\r\n0\r\n\r\n", "near": True, "adj": {}}
        yield {"stream": "POST / HTTP/1.1\r\nTransfer-Encoding: chunked\r\n\r\n0\r\nX-T: " + "t" * n, "near": True, "adj": {"max_request_body_size": 3000}}
        yield {"stream": "POST / HTTP/1.1\r\nTransfer-Encoding: chunked\r\n\r\n0\r\n" + "A: b\r\n" * (n // 4), "near": True, "adj": {"max_request_body_size": 3000}}
        yield {"stream": "GET /" + "a" * n + " HTTP/1.1\r\n\r\n" + G.FOLLOWER, "near": True, "adj": {}}
        yield {"stream": "GET / HTTP/1.1\r\nX: " + "a " * n + "\x01\r\n\r\n" + G.FOLLOWER, "near": True, "adj": {}}
        yield {"stream": "GET / HTTP/1.1\r\nX: a" + " " * n + "\r\n\r\n" + G.FOLLOWER, "near": True, "adj": {}}
        yield {"stream": "GET / HTTP/1.1\r\n" + "X" * n + "\r\n\r\n" + G.FOLLOWER, "near": True, "adj": {}}
        yield {"stream": "GET / HTTP/1.1\r\nTransfer-Encoding: " + "chunked, " * (n // 9) + "chunked\r\n\r\n0\r\n\r\n", "near": True, "adj": {}}
    # inputs of the shape (unit)*n + one forbidden byte at every gate that is decided by a regular expression: a pattern that
    # backtracks exponentially on them makes the hang oracle fire (n = 25 already means 2^25 steps)
    for unit in ("a", "a ", "ab", "a\t", "a,", "a=", "a;", "\\a", "\xe9"):
        for n in (25, 50, 100):
            run = unit * n
            for bad in ("\x01", "\x7f", "\x00"):
                yield {"stream": "GET / HTTP/1.1\r\nX-Thing: " + run.strip() + bad + "\r\n\r\n" + G.FOLLOWER, "near": True, "adj": {}}
                yield {"stream": "POST / HTTP/1.1\r\nTransfer-Encoding: chunked\r\n\r\n0\r\nX-T: " + run.strip() + bad + "\r\n\r\n" + G.FOLLOWER, "near": True, "adj": {}}
                yield {"stream": "POST / HTTP/1.1\r\nTransfer-Encoding: chunked\r\n\r\n3;a=\"" + run + bad + "\r\nabc\r\n0\r\n\r\n", "near": True, "adj": {}}
            if " " not in unit and "\t" not in unit:
                yield {"stream": "POST / HTTP/1.1\r\nTransfer-Encoding: chunked\r\n\r\n3;" + run + "\x01\r\nabc\r\n0\r\n\r\n", "near": True, "adj": {}}
                yield {"stream": "GET /" + run + "\x01 HTTP/1.1\r\n\r\n" + G.FOLLOWER, "near": True, "adj": {}}
                yield {"stream": "GET / HTTP/1.1\r\n" + run.replace(",", "-").replace("=", "-").replace(";", "-").replace("\\", "-") + "\x01: v\r\n\r\n" + G.FOLLOWER, "near": True, "adj": {}}
    # the same shapes at the scale the default header limit admits (a quadratic matcher needs tens of seconds for these)
    for n in (16000, 60000):
        yield {"stream": "GET a://" + "1" * n + " x y\r\n\r\n" + G.FOLLOWER, "near": True, "adj": {}}
        yield {"stream": "GET a://h:" + "1" * n + "\x01 HTTP/1.1\r\n\r\n" + G.FOLLOWER, "near": True, "adj": {}}
        yield {"stream": "GET / HTTP/1.1\r\nX:" + " " * n + "\x01\r\n\r\n" + G.FOLLOWER, "near": True, "adj": {}}
        yield {"stream": "GET / HTTP/1.1\r\nX:\t" + "\t " * (n // 2) + "\x01\r\n\r\n" + G.FOLLOWER, "near": True, "adj": {}}
        yield {"stream": "GET / HTTP/1.1\r\nX: a" + " " * n + "\x01\r\n\r\n" + G.FOLLOWER, "near": True, "adj": {}}
        yield {"stream": "POST / HTTP/1.1\r\nTransfer-Encoding: chunked\r\n\r\n0\r\nX:" + " " * n + "\x01\r\n\r\n", "near": True, "adj": {}}
    for t in ("http://[::1/x", "http://[/", "http://]/", "//[::1", "http://h:99999999/", "http://[v1.x]/", "http://h:x/", "http://\xff/",
              "/%", "/%zz%", "*", "h:443", "http://[::1]:80:90/", "http://a@b@c/", "?", "#", "/\xff\xfe", "http://[::ffff:1.2.3.4]/p"):
        for ver in (" HTTP/1.1", " HTTP/1.0", ""):
            yield {"stream": "GET " + t + ver + "\r\nHost: h\r\n\r\n" + G.FOLLOWER, "near": True, "adj": {}}


def case_strategy():
    @st.composite
    def build(draw):
        s = draw(G.stream(max_msgs=3, p_mut=0.6, allow_expect=True, small=True))
        adj = {}
        if draw(st.booleans()):
            adj["max_request_header_size"] = draw(st.sampled_from([16, 40, 64, 100, 200]))
        if draw(st.booleans()):
            adj["max_request_body_size"] = draw(st.sampled_from([1, 2, 4, 16, 64]))
        if len(s) < 1500:
            adj["recv_bytes"] = draw(st.sampled_from(RECVS))
        return {"stream": s, "adj": adj}

    return build()


def fuzz_jobs(tier, seed, tag):
    # coverage-guided campaigns (atheris): seeded corpus + dictionary, and an empty-corpus one
    if tier == "quick":
        return [{"kind": "fuzz", "runs": 4000, "seed": derive_seed(seed, tag, "fz", 0)}]
    return [{"kind": "fuzz", "runs": 300000, "seed": derive_seed(seed, tag, "fz", i), "seed_corpus": i % 4 != 3, "max_total_time": 600} for i in range(16)]


# ---------------------------------------------------------------- refusal under thread interleavings
def sched_cases():
    """a refused message (400 / 431 / 413) with further requests behind it, arriving in the same read or a later one, with
    read-ahead enabled: 'exactly one error response followed by closure' and 'never reaches the application' must hold for every
    interleaving of the I/O thread (reading on) with the worker that writes the error response"""
    for kind in ("bad_framing", "oversize", "oversize_body"):
        for before in (0, 1):
            for la in (1, 2, 5):
                for arrival in ("later", "same", "split"):
                    for after in (["req"], ["req", "req"], ["partial", "req"]):
                        yield {"sched": True, "before": before, "kind": kind, "after": after, "arrival": arrival, "lookahead": la, "workers": 1 + (la == 5)}


def run_sched(case, source=None, record=False):
    from . import c11
    c = {k: v for k, v in case.items() if k != "sched"}
    fs, nt, labels, trace, sched = c11.run_case_full(c, source=source, record=record)
    out = [{"sig": "C06/sched/" + f["sig"].split("/", 1)[1], "detail": "refused message with pipelined followers: " + f["detail"]} for f in fs]
    return out, nt, set("sched-" + l for l in labels), trace, sched


def jobs(tier, seed):
    js = [{"kind": "sweep_header"}, {"kind": "sweep_body"}]
    for kind in ("bad_framing", "oversize", "oversize_body"):
        js.append({"kind": "sched_sys", "refusal": kind, "bound": 2 if tier == "quick" else 3, "max_runs": 5000 if tier == "quick" else 60000})
    for sh in range(3):
        js.append({"kind": "sched", "n": 12 if tier == "quick" else 300, "seed": derive_seed(seed, "c06s", sh), "shard": sh, "nshards": 3})
    for sh in range(4):
        js.append({"kind": "oversize", "shard": sh, "nshards": 4})
    if tier == "thorough":
        for lim in range(1, 301, 10):
            js.append({"kind": "limits", "lo": lim, "hi": lim + 10})
    n = 1200 if tier == "quick" else 40000
    for sh in range(16):
        js.append({"kind": "hyp", "n": n, "seed": derive_seed(seed, "c06", sh)})
    js += fuzz_jobs(tier, seed, "c06")
    return js


def run_job(job, col):
    if job["kind"] == "fuzz":
        from ..fuzz import run_fuzz_job
        return run_fuzz_job(job, col, PID)
    hangs = [0]

    def one(case):
        if hangs[0] >= 3:
            col.labels["skipped-after-3-hangs-in-this-job"] += 1   # every hang costs HANG_S seconds; three are evidence enough
            return
        fs, nt, labels = run_case_full(case)
        if "hang" in labels:
            hangs[0] += 1
        col.record(case, fs, nontrivial=nt, labels=labels)

    k = job["kind"]
    if k == "sched_sys":
        # every schedule with at most `bound` deviations from the default one, for a refused message followed by a request in a later read
        from .. import schedules as SCH
        from .. import simsched as SS
        base = {"sched": True, "before": 0, "kind": job["refusal"], "after": ["req"], "arrival": "later", "lookahead": 1, "workers": 1}

        def runner_(src):
            fs, nt, labels, trace, sched = run_sched(base, source=src, record=True)
            return sched, (fs, nt, labels)

        n = 0
        for trace, (fs, nt, labels) in SS.systematic(runner_, job["bound"], job["max_runs"]):
            n += 1
            col.record(dict(base, schedule=SCH.replay_spec(trace)), fs, nontrivial=len(trace) > 0, labels=set(labels) | {"sched-systematic"})
        if n < job["max_runs"]:
            col.exhaustive("every schedule with <= %d deviations from the default scheduler for a refused message (400 / 431 / 413) followed by a request in a later read, read-ahead 1" % job["bound"])
    elif k == "sched":
        import random
        from .. import schedules as SCH
        rnd = random.Random(job["seed"])
        for i, c in enumerate(sched_cases()):
            if i % job["nshards"] != job["shard"]:
                continue
            for j in range(job["n"] + 1):
                cc = dict(c)
                if j:
                    cc.update(gran="line" if j % 3 == 2 else "sync", schedule={"kind": "hot", "seed": rnd.randrange(10 ** 9), "p_hot": 0.35, "p_cold": 0.02})
                fs, nt, labels, trace, _s = run_sched(cc)
                if fs and trace is not None and cc.get("schedule"):
                    cc = dict(cc, schedule=SCH.replay_spec(trace))
                col.record(cc, fs, nontrivial=nt, labels=labels)
    elif k == "sweep_header":
        for c in sweep_header():
            one(c)
        col.exhaustive("head length L-2..L+2 around max_request_header_size in {30,64,100,257} x 0..2 blank lines x terminated/unterminated x recv sizes")
    elif k == "sweep_body":
        for c in sweep_body():
            one(c)
        col.exhaustive("body length B-2..B+2 around max_request_body_size in {1,5,16,100} x CL/chunked(1..3 chunks)/truncated x recv sizes")
    elif k == "oversize":
        for i, c in enumerate(oversize_tokens()):
            if i % job["nshards"] == job["shard"]:
                one(c)
    elif k == "limits":
        for lim in range(job["lo"], job["hi"]):
            for d in (-1, 0, 1):
                h = head_of_length(lim + d)
                if h:
                    one({"stream": h + G.FOLLOWER, "near": True, "adj": {"max_request_header_size": lim}})
                n = lim + d
                if n >= 0:
                    one({"stream": "POST /ch HTTP/1.1\r\nTransfer-Encoding: chunked\r\n\r\n" + chunked_of("b" * n, 2) + G.FOLLOWER,
                         "near": True, "adj": {"max_request_body_size": lim}})
                    one({"stream": "POST /cl HTTP/1.1\r\nContent-Length: %d\r\n\r\n%s" % (n, "b" * n) + G.FOLLOWER, "near": True,
                         "adj": {"max_request_body_size": lim}})
        col.exhaustive("both limits swept over 1..300 with sizes -1/0/+1")
    elif k == "hyp":
        hyp_run(case_strategy(), one, job["n"], job["seed"])
