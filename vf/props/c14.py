"""C14 - Worker pool: every task runs exactly once or is cancelled exactly once.

The real ThreadedTaskDispatcher runs under the baton scheduler: m submitter actors, n workers,
interleaved set_thread_count calls and one shutdown; exactly-once bookkeeping on instrumented
tasks and an instrumented queue.
"""
from collections import deque

from hypothesis import strategies as st

from .. import case as C
from .. import schedules as S
from .. import simnet, simsched
from ..runner import derive_seed, hyp_run

PID = "C14"
LEVEL = "exploration"
TECHNIQUE = ("schedule-controlled concurrency testing of the real ThreadedTaskDispatcher (baton scheduler over real threads, "
             "shimmed Lock/Condition/Thread): generated scenarios x generated schedules (sparse pre-emption lists, PCT, random) "
             "+ delay-bounded systematic enumeration; exactly-once / FIFO / convergence oracle")
RULE = ("case = (scenario: 1..3 workers, 1..3 submitters with task lists whose bodies may submit follow-ups, resize calls, "
        "optional shutdown(cancel_pending), line- or sync-level yield points) x schedule (data); non-trivial = at least two "
        "actors were pre-empted / interleaved inside dispatcher methods (>= 1 non-forced context switch); distinct by case hash")
ASSUMPTIONS = [
    "one thread runs at a time (CPython GIL); pre-emption at lock / condition operations (and source lines in line mode)",
    "'submitted before shutdown' is literal: the controller calls shutdown after all submitters returned; follow-ups of tasks that run during shutdown are cancelled or stay queued",
    "timed waits fire only when nothing else can run (the 0.1 s poll of shutdown)",
]


class TracedDeque(deque):
    def __init__(self, log):
        deque.__init__(self)
        self.log = log

    def append(self, x):
        self.log.append(("in", x.tid))
        deque.append(self, x)

    def popleft(self):
        x = deque.popleft(self)
        self.log.append(("out", x.tid))
        return x


class T:
    def __init__(self, sc, tid, follow=0, steps=1, exc=None, hold=False, bad_repr=False):
        self.sc, self.tid, self.follow, self.steps, self.exc = sc, tid, follow, steps, exc
        self.hold = hold
        self.bad_repr = bad_repr
        self.served = 0
        self.cancelled = 0

    def service(self):
        self.served += 1
        s = self.sc.sched
        self.sc.running.append(self.tid)
        for i in range(self.steps):
            s.yield_point("task.step")
        if self.hold:
            # a long-running request: keeps its worker busy until the first quiescence has been judged
            s.block(lambda: self.sc.release, "task.hold")
        for k in range(self.follow):
            t = T(self.sc, "%s.%d" % (self.tid, k))
            self.sc.tasks.append(t)
            self.sc.disp.add_task(t)
        if self.exc:
            raise {"ValueError": ValueError, "SystemExit": SystemExit, "KeyboardInterrupt": KeyboardInterrupt}[self.exc]("task fault")

    def cancel(self):
        self.cancelled += 1

    def __repr__(self):
        if self.bad_repr:
            raise RuntimeError("repr of task %s fails" % self.tid)   # an error path inside the error path (the failure is being logged)
        return "<T %s>" % self.tid


class Scenario:
    pass


def run_scenario(case, source, record_decisions=False):
    import waitress.task as wt
    sc = Scenario()
    sched = simsched.Scheduler(source, granularity=case.get("gran", "sync"), auto_timers=400, step_limit=60000)
    sched.record_decisions = record_decisions
    w = simnet.BareWorld(sched)
    sc.sched = sched
    sc.tasks = []
    sc.running = []
    sc.release = False
    qlog = []
    fails = []
    try:
        disp = wt.ThreadedTaskDispatcher()
        disp.queue = TracedDeque(qlog)
        sc.disp = disp
        disp.set_thread_count(case.get("workers", 1))
        done = {"subs": 0}
        nsub = len(case["submitters"])
        result = {}

        def submitter(specs, si):
            for j, sp in enumerate(specs):
                sched.yield_point("submit")
                t = T(sc, "s%d.%d" % (si, j), follow=sp.get("follow", 0), steps=sp.get("steps", 1), exc=sp.get("exc"), hold=bool(sp.get("hold")),
                      bad_repr=bool(sp.get("bad_repr")))
                sc.tasks.append(t)
                disp.add_task(t)
            done["subs"] += 1

        def controller():
            for op in case.get("ops", []):
                sched.yield_point("ctl")
                if op[0] == "resize":
                    disp.set_thread_count(op[1])
                    result["last_count"] = op[1]
            if case.get("shutdown") is not None:
                sched.block(lambda: done["subs"] == nsub, "submitters-done")
                result["shutdown_ret"] = disp.shutdown(cancel_pending=case["shutdown"])
                result["shutdown_done"] = True

        for si, specs in enumerate(case["submitters"]):
            sched.spawn(submitter, (specs, si), name="sub%d" % si)
        sched.spawn(controller, name="ctl")
        reason = sched.run()
        # ---- oracle at quiescence
        def fail(sig, detail):
            fails.append({"sig": "C14/" + sig, "detail": detail})

        if any(sp.get("hold") for specs in case["submitters"] for sp in specs):
            # first quiescence, some workers kept busy by long-running tasks: no task may sit in the queue next to an idle worker
            idle = [n for n, what in sched.blocked() if n.startswith("waitress") and what == "cond.wait"]
            waiting = [x.tid for x in disp.queue if not x.served and not x.cancelled]
            if idle and waiting:
                fail("queued-with-idle-workers", "first quiescence: %r queued while %r are idle (others are busy with long-running tasks)" % (waiting, idle))
            sc.release = True
            reason = sched.run()

        for t in sched.threads:
            if t.died:
                fail("thread-died/%s/%s" % (t.name.split("-")[0].rstrip("0123456789"), t.died[0]), "%s died: %s: %s" % (t.name, t.died[0], t.died[1]))
        ins = [x for k, x in qlog if k == "in"]
        outs = [x for k, x in qlog if k == "out"]
        if outs != ins[:len(outs)]:
            fail("order", "hand-out order %r is not submission order %r" % (outs[:8], ins[:8]))
        if len(set(ins)) != len(ins):
            fail("submitted-twice", "%r" % ins)
        queued = [x.tid for x in disp.queue]
        shutdown = case.get("shutdown")
        for t in sc.tasks:
            sv, cn = t.served, t.cancelled
            if sv > 1:
                fail("ran-twice", "task %s ran %d times" % (t.tid, sv))
            elif cn > 1:
                fail("cancelled-twice", "task %s cancelled %d times" % (t.tid, cn))
            elif sv and cn:
                fail("ran-and-cancelled", "task %s both ran and was cancelled" % t.tid)
            elif not sv and not cn:
                if t.tid in queued:
                    if shutdown is True and result.get("shutdown_done"):
                        fail("left-queued-after-cancelling-shutdown", "task %s still queued" % t.tid)
                    elif shutdown is None and [x for x in sched.threads if x.name.startswith("waitress") and x.state != "done"] and result.get("last_count", case.get("workers", 1)) > 0:
                        fail("queued-with-idle-workers", "task %s is queued at quiescence while workers are idle: %r" % (t.tid, sched.blocked()))
                else:
                    fail("lost", "task %s was neither run nor cancelled nor is it queued (queue %r)" % (t.tid, queued))
            if (sv or cn) and t.tid in queued:
                fail("still-queued-after-handling", "task %s handled but still in the queue" % t.tid)
        live = [x for x in sched.threads if x.name.startswith("waitress") and x.state != "done"]
        if shutdown is not None:
            if not result.get("shutdown_done"):
                fail("shutdown-never-returned", "blocked: %r" % sched.blocked())
            else:
                if live:
                    fail("workers-alive-after-shutdown", "%r" % live)
                if result["shutdown_ret"] is not (True if shutdown else False):
                    fail("shutdown-return", "returned %r" % result["shutdown_ret"])
                if disp.threads or disp.stop_count:
                    fail("bookkeeping-after-shutdown", "threads=%r stop_count=%r" % (disp.threads, disp.stop_count))
        else:
            want = result.get("last_count", case.get("workers", 1))
            if len(live) != want:
                fail("resize-not-converged", "requested %d workers, %d alive at quiescence (threads=%r stop_count=%d)" % (want, len(live), sorted(disp.threads), disp.stop_count))
            if len(disp.threads) - disp.stop_count != want:
                fail("bookkeeping-after-resize", "len(threads)-stop_count=%d, requested %d" % (len(disp.threads) - disp.stop_count, want))
        return fails, sched
    finally:
        try:
            sched.shutdown()
        finally:
            w.close()


def validate(case):
    if not isinstance(case.get("submitters"), list) or len(case["submitters"]) > 4:
        raise C.CaseInvalid("submitters")
    if not isinstance(case.get("workers", 1), int) or not (0 <= case.get("workers", 1) <= 4):
        raise C.CaseInvalid("workers")
    for sp in case["submitters"]:
        if not isinstance(sp, list) or len(sp) > 6:
            raise C.CaseInvalid("specs")
        for t in sp:
            if not isinstance(t, dict) or not (0 <= t.get("follow", 0) <= 3) or not (0 <= t.get("steps", 1) <= 4):
                raise C.CaseInvalid("task")
            if t.get("exc") not in (None, "ValueError", "SystemExit", "KeyboardInterrupt"):
                raise C.CaseInvalid("exc")
            if t.get("hold") and (case.get("shutdown") is not None or t.get("hold") is not True):
                raise C.CaseInvalid("hold")
    for op in case.get("ops", []):
        if not (isinstance(op, list) and op and op[0] == "resize" and isinstance(op[1], int) and 0 <= op[1] <= 4):
            raise C.CaseInvalid("op")
    if case.get("shutdown") not in (None, True, False):
        raise C.CaseInvalid("shutdown")
    if case.get("gran", "sync") not in ("sync", "line"):
        raise C.CaseInvalid("gran")


def run_case_full(case):
    validate(case)
    try:
        src = S.make_source(case.get("schedule"))
    except Exception:
        raise C.CaseInvalid("schedule")
    try:
        fails, sched = run_scenario(case, src)
    except simsched.Overrun:
        return [], False, {"overrun"}, None
    labels = {"workers:%d" % case.get("workers", 1), "shutdown:%s" % case.get("shutdown"), "gran:" + case.get("gran", "sync")}
    if sched.preemptions:
        labels.add("preempted")
    return fails, sched.preemptions > 0, labels, list(sched.trace)


def run_case(case):
    return run_case_full(case)[0]


# ---------------------------------------------------------------- generation
def scenario_strategy():
    task = st.fixed_dictionaries({"follow": st.sampled_from([0, 0, 0, 1, 2]), "steps": st.integers(0, 2),
                                  "exc": st.sampled_from([None, None, None, None, "ValueError", "SystemExit"]), "hold": st.sampled_from([False, False, False, True]),
                                  "bad_repr": st.sampled_from([False, False, True])})
    return st.fixed_dictionaries({
        "workers": st.integers(1, 3),
        "submitters": st.lists(st.lists(task, min_size=1, max_size=4), min_size=1, max_size=3),
        "ops": st.lists(st.tuples(st.just("resize"), st.integers(0, 3)).map(list), max_size=3),
        "shutdown": st.sampled_from([None, True, True, False]),
        "gran": st.sampled_from(["sync", "sync", "sync", "line"]),
        "schedule": S.schedule_strategy(),
    }).map(lambda c: c if c["shutdown"] is None else dict(c, submitters=[[{k: v for k, v in t.items() if k != "hold"} for t in sp] for sp in c["submitters"]]))


FIXED = [
    {"workers": 1, "submitters": [[{"follow": 0, "steps": 1}], [{"follow": 0, "steps": 0}]], "ops": [["resize", 2]], "shutdown": True},
    {"workers": 2, "submitters": [[{"follow": 1, "steps": 1}, {"follow": 0, "steps": 1}]], "ops": [["resize", 1], ["resize", 2]], "shutdown": None},
    {"workers": 2, "submitters": [[{"follow": 0, "steps": 2}, {"follow": 0, "steps": 0}]], "ops": [["resize", 1], ["resize", 2], ["resize", 2]], "shutdown": True},
    {"workers": 1, "submitters": [[{"follow": 2, "steps": 0}]], "ops": [], "shutdown": False},
    {"workers": 2, "submitters": [[{"follow": 0, "steps": 1}], [{"follow": 0, "steps": 1}]], "ops": [["resize", 0], ["resize", 2]], "shutdown": None},
    # a task that fails and whose repr() fails too (the failure is logged with the task in the message)
    {"workers": 1, "submitters": [[{"follow": 0, "steps": 0, "exc": "ValueError", "bad_repr": True}, {"follow": 0, "steps": 0}, {"follow": 0, "steps": 1}]], "ops": [["resize", 2]], "shutdown": True},
    {"workers": 2, "submitters": [[{"follow": 1, "steps": 0, "exc": "SystemExit", "bad_repr": True}], [{"follow": 0, "steps": 1}]], "ops": [], "shutdown": None},
    # long-running tasks keep some workers busy: whatever else is submitted has to be taken by the idle ones
    {"workers": 2, "submitters": [[{"follow": 0, "steps": 0, "hold": True}], [{"follow": 0, "steps": 0}]], "ops": [], "shutdown": None},
    {"workers": 3, "submitters": [[{"follow": 0, "steps": 0, "hold": True}, {"follow": 0, "steps": 1}], [{"follow": 1, "steps": 0, "hold": True}]], "ops": [], "shutdown": None},
    {"workers": 2, "submitters": [[{"follow": 0, "steps": 0}, {"follow": 0, "steps": 0, "hold": True}, {"follow": 0, "steps": 0}]], "ops": [["resize", 3]], "shutdown": None},
]


def jobs(tier, seed):
    js = []
    for i in range(len(FIXED)):
        js.append({"kind": "systematic", "index": i, "bound": 2, "max_runs": 2500 if tier == "quick" else 80000})
    n = 1800 if tier == "quick" else 25000
    for sh in range(16 - len(FIXED) if tier == "quick" else 16):
        js.append({"kind": "hyp", "n": n, "seed": derive_seed(seed, "c14", sh)})
    return js


def run_job(job, col):
    if job["kind"] == "hyp":
        def one(case):
            fs, nt, labels, trace = run_case_full(case)
            if fs and trace is not None:
                case = dict(case, schedule=S.replay_spec(trace))
            col.record(case, fs, nontrivial=nt, labels=labels)

        hyp_run(scenario_strategy(), one, job["n"], job["seed"])
    else:
        base = FIXED[job["index"]]

        def runner(src):
            try:
                fails, sched = run_scenario(base, src, record_decisions=True)
            except simsched.Overrun:
                class _S:
                    trace, decisions, preemptions = [], [], 0
                return _S, None
            return sched, fails

        n = 0
        for trace, fails in simsched.systematic(runner, job["bound"], job["max_runs"]):
            n += 1
            case = dict(base, schedule=S.replay_spec(trace))
            col.record(case, fails or [], nontrivial=len(trace) > 0, labels=("systematic",))
        if n < job["max_runs"]:
            col.exhaustive("every schedule with at most %d deviation(s) from the default scheduler for %d fixed scenarios" % (job["bound"], len(FIXED)))
