"""C12 - Output buffering is bounded: fast producers are paused and always released.

One producing worker, the draining I/O thread and a client actor with generated drain patterns
(steady, partial, stall-then-resume, disconnect) under harness-owned schedules; watermark / send_bytes
settings including degenerate ones.
"""
import sys

from hypothesis import strategies as st

from .. import case as C
from .. import schedprop as SP
from .. import schedules as S
from .. import simsched
from ..case import s2b
from ..gen import apps as A
from ..refhttp import response as RESP
from ..schedworld import run_scenario
from ..world import observe, adj_default
from . import c05

PID = "C12"
LEVEL = "exploration"
TECHNIQUE = ("schedule-controlled concurrency testing of the producer / consumer pair around outbuf_high_watermark: generated "
             "write sizes, watermark / send_bytes settings (incl. 0 and 1), client drain patterns (partial, stall-then-resume, "
             "disconnect at a generated point) x generated schedules; max-backlog, release-at-quiescence and prefix-exact wire oracles")
RULE = ("case = (application writing k chunks of sizes below / at / above the mark via iterable or write(), outbuf_high_watermark "
        "in {0,1,20,100}, send_bytes in {1,10,50}, small SO_SNDBUF and socket capacity, client drain pattern incl. a stall that "
        "resumes and a disconnect (reset or EOF) after n received bytes) x schedule; non-trivial = the producer waited on the "
        "output condition at least once (pending output exceeded the mark); distinct by case hash")
ASSUMPTIONS = ["thresholds are scaled down (the code has no size-dependent branch other than the comparisons)",
               "'one write' = the largest single write_soon payload of the run (header block or chunk incl. chunked framing) plus the 25-byte interim response",
               "a producer parked while the client is stalled, connected and the backlog is above the mark is correct behaviour"]


def validate(case):
    b = case.get("beh")
    if not isinstance(b, dict) or b.get("status") != "200 OK" or b.get("mode") not in ("list", "gen", "write", "purelist", "fw"):
        raise C.CaseInvalid("beh")
    if b.get("mode") == "fw":
        fw = b.get("fw")
        if not isinstance(fw, dict) or not isinstance(fw.get("len"), int) or not (1 <= fw["len"] <= 5000) or fw.get("start", 0) != 0 or \
                not isinstance(fw.get("block", 64), int) or fw.get("block", 64) < 1 or b.get("chunks") or "declared_cl" in b:
            raise C.CaseInvalid("fw")
    elif not isinstance(b.get("chunks"), list) or not b["chunks"] or any(not isinstance(c, str) or len(c) > 3000 for c in b["chunks"]):
        raise C.CaseInvalid("chunks")
    if "declared_cl" in b and b["declared_cl"] != sum(len(c) for c in b["chunks"]):
        raise C.CaseInvalid("cl")
    adj = case.get("adj") or {}
    for k, lo in (("send_bytes", 1), ("outbuf_high_watermark", 0), ("outbuf_overflow", 1)):
        if k in adj and (not isinstance(adj[k], int) or adj[k] < lo):
            raise C.CaseInvalid(k)
    for k in ("capacity", "stop_after", "reset_after", "sndbuf"):
        if case.get(k) is not None and (not isinstance(case[k], int) or case[k] < 1):
            raise C.CaseInvalid(k)
    if case.get("drain", "all") != "all" and (not isinstance(case["drain"], int) or case["drain"] < 1):
        raise C.CaseInvalid("drain")
    if case.get("send_fault") is not None and (not isinstance(case["send_fault"], int) or not (0 <= case["send_fault"] < 200)):
        raise C.CaseInvalid("send_fault")
    if case.get("send_errno", "ETIMEDOUT") not in ("ETIMEDOUT", "EINVAL", "generic", "EHOSTUNREACH", "EPIPE", "ECONNRESET"):
        raise C.CaseInvalid("send_errno")
    if case.get("gran", "sync") not in ("sync", "line") or case.get("reqs", 1) not in (1, 2, 3):
        raise C.CaseInvalid("gran")


OSERROR_NAMES = set(c.__name__ for c in (OSError, TimeoutError, ConnectionError, BrokenPipeError, ConnectionResetError, ConnectionAbortedError,
                                          ConnectionRefusedError, InterruptedError, BlockingIOError))


def to_scenario(case):
    n = case.get("reqs", 1)
    one_ = ["GET /c0/r%d HTTP/1.1\r\nHost: h\r\nX-Conn: 0\r\n\r\n" % i for i in range(n)]
    stream = "".join(one_)
    adj = dict(case.get("adj") or {})
    adj["threads"] = 1
    # late_req: the last request arrives in a read of its own (with read-ahead the I/O thread parses it while the producer is paused)
    conn = {"segments": ["".join(one_[:-1]), one_[-1]] if case.get("late_req") and n > 1 else [stream],
            # the late request is sent once the client has seen the first response bytes
            "waits": [None, "continue"] if case.get("late_req") and n > 1 else None, "capacity": case.get("capacity"), "drain": case.get("drain", "all"),
            "drain_stop_after": case.get("stop_after"), "drain_resume": case.get("resume", True), "reset_after_rx": case.get("reset_after"),
            "eof": bool(case.get("eof"))}
    if case.get("send_fault") is not None:
        # the n-th send() on the connection fails with an errno that is NOT a plain disconnect (e.g. ETIMEDOUT)
        conn["faults"] = {"send:%d" % case["send_fault"]: case.get("send_errno", "ETIMEDOUT")}
    return {"adj": adj, "gran": case.get("gran", "sync"), "apps": [case["beh"]], "sndbuf": case.get("sndbuf", 1 << 20), "infinite_timeouts": True,
            "conns": [conn]}


def run_case_full(case, source=None, record=False):
    validate(case)
    sc = to_scenario(case)
    if source is None:
        try:
            source = S.make_source(case.get("schedule"))
        except Exception:
            raise C.CaseInvalid("schedule")
    try:
        r, sched = run_scenario(sc, source, record_decisions=record)
    except simsched.Overrun:
        return [], False, {"overrun"}, None, None
    fails = []

    def fail(sig, detail):
        fails.append({"sig": "C12/" + sig, "detail": detail})

    adj = case.get("adj") or {}
    wm = adj.get("outbuf_high_watermark", adj_default("outbuf_high_watermark"))
    disconnects = case.get("reset_after") is not None or case.get("send_fault") is not None
    stalled_for_good = case.get("stop_after") is not None and not case.get("resume", True)
    ch = r.snap["channels"][0] if r.snap["channels"] else None
    labels = {"gran:" + case.get("gran", "sync"), "wm:%d" % wm, "mode:" + case["beh"]["mode"]}
    if r.handle_errors:
        fail("handle-error/" + str(r.handle_errors[0][1]), "%r" % (r.handle_errors[0],))
    for name, d in r.died:
        fail("thread-died/" + d[0], "%s: %s" % (name, d[1]))
    for lvl, msg, et in r.logs:
        if case.get("send_fault") is not None and et in OSERROR_NAMES:
            continue   # the injected socket failure is logged, as log_socket_errors asks (whatever the wording of the message)
        if lvl >= 40 and et is not None:
            if case.get("send_fault") is not None and et == "AttributeError":
                fail("exception-logged/AttributeError/flush-on-closed-channel-after-send-error", "after a send() error the producer flushed on the channel the main thread had just closed (socket is None)")
                break
            fail("exception-logged/%s" % et, "the server logged %r (%s) although the application never fails in this scenario" % (msg, et))
            break
    waited = False
    if ch:
        bound = wm + ch["max_write"] + 25
        if ch["max_tol"] > bound:
            fail("backlog-exceeds-bound", "pending output reached %d bytes: watermark %d + largest write %d (+25) = %d" % (ch["max_tol"], wm, ch["max_write"], bound))
        waited = ch["producer_waits"] > 0
    # at quiescence: a parked producer is only legitimate while the client is stalled, connected and the backlog is above the mark
    for snap, phase in ((r.first, "first"), (r.snap, "final")):
        for name, fd in snap["parked_producers"]:
            c = [x for x in snap["channels"] if x["fd"] == fd][0]
            client_stalled = (phase == "first" and case.get("stop_after") is not None) or stalled_for_good
            if fd in snap.get("late_waits", ()) and case.get("send_fault") is not None:
                # the wait *began* after the main thread had closed the channel (its only notify was already gone)
                fail("producer-parked/wait-began-after-close", "%s quiescence: after a send() error the producer started to wait for the main thread when the channel was already closed" % phase)
            elif c["tol"] <= wm:
                fail("producer-parked/below-mark", "%s quiescence: producer waits although the backlog %d is not above the mark %d" % (phase, c["tol"], wm))
            elif not c["connected"]:
                fail("producer-parked/disconnected", "%s quiescence: producer still waits after the client disconnected" % phase)
            elif not client_stalled:
                fail("producer-parked/client-reading", "%s quiescence: producer waits (backlog %d > mark %d) although the client keeps reading; blocked %r, spin=%s" % (
                    phase, c["tol"], wm, snap["blocked"], snap["spin"]))
        if snap["spin"] and not (phase == "first" and case.get("stop_after") is not None) and not stalled_for_good:
            held_back = all(x["tol"] < adj.get("send_bytes", 1) and x["requests"] > 0 and not snap["parked_producers"] for x in snap["channels"] if x["tol"] > 0)
            if not held_back:
                fail("spin", "%s quiescence: the loop spins without progress; channels %r parked %r" % (phase, [(x["tol"], x["requests"]) for x in snap["channels"]], snap["parked_producers"]))
    for x in r.snap["channels"]:
        if not x["in_map"] and x["tol"] > 0:
            fail("output-accepted-after-teardown", "the connection was torn down, yet %d bytes are accounted as pending output (accepted from the producer afterwards)" % x["tol"])
    # wire is a prefix of the expected bytes (nothing corrupted / reordered); complete unless the client went away or stalled for good
    exp = observe([s2b("".join(sc["conns"][0]["segments"]))], adj={k: v for k, v in adj.items() if k != "threads"}, eof=False,
                  app=A.MultiConnApp([case["beh"]])).wire
    c0 = r.conns[0]
    got = c0["rx"] + c0["pending"]
    if not exp.startswith(got):
        k = 0
        while k < min(len(got), len(exp)) and got[k] == exp[k]:
            k += 1
        fail("wire-corrupted", "wire is not a prefix of the sequential wire: first difference at byte %d of %d: %r vs %r" % (k, len(got), got[max(0, k - 10):k + 20], exp[max(0, k - 10):k + 20]))
    elif not disconnects and not stalled_for_good and not case.get("eof") and len(got) < len(exp) and not fails:
        fail("output-incomplete", "client kept reading but got %d of %d bytes; blocked %r" % (len(got), len(exp), r.snap["blocked"]))
    if disconnects and not fails:
        # the producer was released, its request aborted and the iterable closed
        for key, kind in r.app.returned.items():
            if kind == "iter" and r.app.closes.get(key, 0) != 1:
                fail("iterable-not-closed-after-disconnect", "iterable of request %r closed %d times after the client disconnected" % (key, r.app.closes.get(key, 0)))
        labels.add("disconnect")
    if waited:
        labels.add("producer-waited")
    return fails, waited, labels, r.trace, sched


def run_case(case):
    return run_case_full(case)[0]


def case_strategy():
    @st.composite
    def build(draw):
        wm = draw(st.sampled_from([0, 1, 20, 100]))
        sb = draw(st.sampled_from([1, 1, 10, 50]))
        sizes = [1, max(1, wm - 1), max(1, wm), wm + 1, 2 * wm + 5, 7, 64]
        chunks = draw(st.lists(st.sampled_from(sizes).map(lambda n: "q" * n), min_size=1, max_size=6))
        beh = {"status": "200 OK", "mode": draw(st.sampled_from(["gen", "gen", "write", "list", "fw"])), "chunks": chunks}
        if beh["mode"] == "fw":
            # wsgi.file_wrapper: the file is queued as an output buffer of its own behind whatever is still unsent
            beh = {"status": "200 OK", "mode": "fw", "chunks": [],
                   "fw": {"seekable": draw(st.booleans()), "len": draw(st.sampled_from([1, wm + 1, 2 * wm + 5, 64, 300])), "start": 0, "closeable": True,
                          "block": draw(st.sampled_from([8, 64, 8192]))}}
        elif draw(st.booleans()):
            beh["declared_cl"] = sum(len(c) for c in chunks)
        adj = {"outbuf_high_watermark": wm, "send_bytes": sb}
        if draw(st.integers(0, 3)) == 0:
            adj["outbuf_overflow"] = draw(st.sampled_from([8, 64]))
        if draw(st.booleans()):
            adj["asyncore_use_poll"] = True
        if draw(st.integers(0, 3)) == 0:
            adj["channel_request_lookahead"] = draw(st.sampled_from([1, 2, 3]))
        pat = draw(st.sampled_from(["steady", "steady", "stall-resume", "stall-resume", "reset", "stall-forever", "send-fault", "send-fault"]))
        total = (beh["fw"]["len"] if beh["mode"] == "fw" else sum(len(c) for c in chunks)) + 120
        case = {"beh": beh, "adj": adj, "sndbuf": draw(st.sampled_from([4, 16, 64, 1 << 20])), "capacity": draw(st.sampled_from([5, 16, 50, 300])),
                "drain": draw(st.sampled_from(["all", 3, 16])), "reqs": draw(st.sampled_from([1, 1, 2, 3])), "late_req": draw(st.booleans()),
                "gran": draw(st.sampled_from(["sync", "sync", "line"])), "schedule": draw(S.schedule_strategy())}
        if pat == "stall-resume":
            case["stop_after"] = draw(st.integers(1, total))
            case["resume"] = True
        elif pat == "stall-forever":
            case["stop_after"] = draw(st.integers(1, total))
            case["resume"] = False
        elif pat == "reset":
            case["reset_after"] = draw(st.integers(1, total))
        elif pat == "send-fault":
            case["send_fault"] = draw(st.integers(0, 14))
            case["send_errno"] = draw(st.sampled_from(["ETIMEDOUT", "EINVAL", "generic", "EPIPE"]))
        return case

    return build()


G3 = {"status": "200 OK", "mode": "gen", "chunks": ["a" * 30, "b" * 30, "c" * 30, "d" * 30]}
W3 = {"status": "200 OK", "mode": "write", "chunks": ["a" * 50, "b" * 5, "c" * 50], "declared_cl": 105}
FIXED = [
    {"beh": G3, "adj": {"outbuf_high_watermark": 20, "send_bytes": 1}, "sndbuf": 16, "capacity": 16, "drain": 8},
    {"beh": G3, "adj": {"outbuf_high_watermark": 20, "send_bytes": 1}, "sndbuf": 16, "capacity": 16, "drain": 8, "stop_after": 40, "resume": True},
    {"beh": G3, "adj": {"outbuf_high_watermark": 20, "send_bytes": 1}, "sndbuf": 16, "capacity": 16, "drain": 8, "reset_after": 60},
    {"beh": W3, "adj": {"outbuf_high_watermark": 1, "send_bytes": 1}, "sndbuf": 8, "capacity": 10, "drain": "all"},
    {"beh": G3, "adj": {"outbuf_high_watermark": 100, "send_bytes": 1}, "sndbuf": 1 << 20, "capacity": 40, "drain": "all", "send_fault": 2, "send_errno": "ETIMEDOUT"},
    {"beh": G3, "adj": {"outbuf_high_watermark": 60, "send_bytes": 1}, "sndbuf": 30, "capacity": 30, "drain": 30, "send_fault": 3, "send_errno": "EINVAL"},
    {"beh": G3, "adj": {"outbuf_high_watermark": 20, "send_bytes": 1, "asyncore_use_poll": True}, "sndbuf": 16, "capacity": 16, "drain": 8, "reset_after": 60},
    {"beh": G3, "adj": {"outbuf_high_watermark": 1, "asyncore_use_poll": True}, "sndbuf": 64, "capacity": 30, "drain": "all", "reset_after": 20},
    {"beh": G3, "adj": {"outbuf_high_watermark": 0, "send_bytes": 1}, "sndbuf": 64, "capacity": 20, "drain": "all"},
    {"beh": G3, "adj": {"outbuf_high_watermark": 20, "send_bytes": 50}, "sndbuf": 16, "capacity": 16, "drain": 8},
    {"beh": W3, "adj": {"outbuf_high_watermark": 100, "send_bytes": 10, "outbuf_overflow": 16}, "sndbuf": 32, "capacity": 24, "drain": 16, "stop_after": 100, "resume": True, "reqs": 2},
]
FW = {"status": "200 OK", "mode": "fw", "chunks": [], "fw": {"seekable": True, "len": 200, "start": 0, "closeable": True, "block": 64}}
FWN = {"status": "200 OK", "mode": "fw", "chunks": [], "fw": {"seekable": False, "len": 150, "start": 0, "closeable": True, "block": 32}}
L1 = {"status": "200 OK", "mode": "list", "chunks": ["b" * 100], "declared_cl": 100}
FIXED += [
    # the whole response is accepted without a pause (head and body each below the mark), the backlog exceeds the mark only when the
    # request is over: the producer is paused *between* two pipelined requests while a further request arrives (read-ahead 2)
    {"beh": L1, "adj": {"outbuf_high_watermark": 150, "send_bytes": 1, "channel_request_lookahead": 2}, "sndbuf": 16, "capacity": 16, "drain": 8, "reqs": 3, "late_req": True},
    {"beh": L1, "adj": {"outbuf_high_watermark": 150, "send_bytes": 1, "channel_request_lookahead": 3, "asyncore_use_poll": True}, "sndbuf": 32, "capacity": 32, "drain": 16, "reqs": 3, "late_req": True},
    # read-ahead: requests keep arriving (and are parsed by the I/O thread) while the producer is paused between two pipelined responses
    {"beh": G3, "adj": {"outbuf_high_watermark": 20, "send_bytes": 1, "channel_request_lookahead": 2}, "sndbuf": 16, "capacity": 16, "drain": 8, "reqs": 3, "late_req": True},
    {"beh": W3, "adj": {"outbuf_high_watermark": 50, "send_bytes": 1, "channel_request_lookahead": 3}, "sndbuf": 16, "capacity": 16, "drain": 4, "reqs": 3, "late_req": True,
     "stop_after": 60, "resume": True},
    {"beh": FW, "adj": {"outbuf_high_watermark": 20, "send_bytes": 1}, "sndbuf": 16, "capacity": 16, "drain": 8, "reqs": 2},
    {"beh": FW, "adj": {"outbuf_high_watermark": 100, "send_bytes": 50}, "sndbuf": 64, "capacity": 40, "drain": "all", "stop_after": 30, "resume": True, "reqs": 2},
    {"beh": FWN, "adj": {"outbuf_high_watermark": 20, "send_bytes": 1}, "sndbuf": 16, "capacity": 16, "drain": 8, "reset_after": 100},
]
QUICK = (1, 1200, 300, 300, 12)


def jobs(tier, seed):
    return SP.jobs(sys.modules[__name__], tier, seed)


def run_job(job, col):
    SP.run_job(sys.modules[__name__], job, col)
