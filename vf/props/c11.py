"""C11 - Nothing is executed after the server has decided to close a connection.

Scenarios: a message of a closing kind (Connection: close, HTTP/1.0, framing error, oversize, a response
that cannot be delimited, an application exception) followed - in the same read or a later one - by
further requests / a partial request / garbage; lookahead 0..5; 1..2 workers; schedules owned by the
harness.  Oracle: no application call of a later message, none starting after the recorded close decision.
"""
import sys

from hypothesis import strategies as st

from .. import case as C
from .. import schedprop as SP
from .. import schedules as S
from .. import simsched
from ..case import s2b
from ..refhttp import response as RESP
from ..schedworld import run_scenario

PID = "C11"
LEVEL = "exploration"
TECHNIQUE = ("schedule-controlled concurrency testing around the close decision (baton scheduler, real I/O + worker threads, "
             "client sender actor that delivers the follow-up bytes at a scheduler-chosen instant); trace invariant on a "
             "harness-side traced channel + deterministic expectation of the executed set")
RULE = ("case = (requests before / at / after a closing message of one of 7 kinds, how the bytes are cut into reads, what "
        "follows: complete request, partial request or garbage; lookahead in {0,1,2,5}; 1..2 workers; socket capacity) x "
        "schedule; non-trivial = the follow-up bytes were received (a recv returned them) or were still unread while a "
        "worker was active, and the schedule has >= 1 pre-emption; distinct by case hash")
ASSUMPTIONS = ["one thread at a time (GIL); pre-emption at sync points (and source lines in line mode)",
               "the close decision instant is the first assignment of close_when_flushed / will_close on the connection's channel"]
KINDS = ["conn_close", "http10", "bad_framing", "oversize", "app_no_length_10", "app_short", "app_exc", "app_exc_mid", "oversize_body", "te_non11", "none"]
VERSIONS = ["1.0", "1.2", "2.0", "0.9"]
EXCS = ["ValueError", "OSError", "ConnectionResetError", "FileNotFoundError", "SystemExit"]


def req_bytes(i, kind=None, version="1.0"):
    p = "/k%d" % i
    if kind == "te_non11":
        # Transfer-Encoding on a request that is not HTTP/1.1: may be processed, but the connection is closed after this one message
        return "GET %s HTTP/%s\r\nHost: h\r\nX-Conn: 0\r\nConnection: keep-alive\r\nTransfer-Encoding: chunked\r\n\r\n" % (p, version)
    if kind == "conn_close":
        return "GET %s HTTP/1.1\r\nHost: h\r\nX-Conn: 0\r\nConnection: close\r\n\r\n" % p
    if kind == "http10":
        return "GET %s HTTP/1.0\r\nHost: h\r\nX-Conn: 0\r\n\r\n" % p
    if kind == "bad_framing":
        return "POST %s HTTP/1.1\r\nHost: h\r\nX-Conn: 0\r\nContent-Length: 3\r\nContent-Length: 4\r\n\r\nabc" % p
    if kind == "oversize":
        return "GET %s HTTP/1.1\r\nHost: h\r\nX-Conn: 0\r\nX-Pad: %s\r\n\r\n" % (p, "p" * 600)
    if kind == "oversize_body":
        return "POST %s HTTP/1.1\r\nHost: h\r\nX-Conn: 0\r\nContent-Length: 50\r\n\r\n%s" % (p, "b" * 50)
    if kind == "app_no_length_10":
        return "GET %s HTTP/1.0\r\nHost: h\r\nX-Conn: 0\r\nConnection: keep-alive\r\n\r\n" % p
    return "GET %s HTTP/1.1\r\nHost: h\r\nX-Conn: 0\r\n\r\n" % p


OK_BEH = {"status": "200 OK", "mode": "list", "chunks": ["ok"], "declared_cl": 2}


def beh_for(kind, exc="ValueError"):
    if kind == "app_exc_mid":
        # fails after the head and part of a Content-Length body went out: the response cannot be delimited as announced
        return {"status": "200 OK", "mode": "gen", "chunks": ["ab", "cd"], "declared_cl": 4, "raise_at": ["iter", 1], "exc": exc}
    if kind == "app_no_length_10":
        return {"status": "200 OK", "mode": "gen", "chunks": ["a", "b"]}
    if kind == "app_short":
        return {"status": "200 OK", "mode": "list", "chunks": ["ab"], "declared_cl": 5}
    if kind == "app_exc":
        return {"status": "200 OK", "mode": "list", "chunks": ["x"], "declared_cl": 1, "raise_at": ["call"], "exc": exc}
    return dict(OK_BEH)


def to_scenario(case):
    n_before, kind, after = case["before"], case["kind"], case["after"]
    pieces = [req_bytes(i) for i in range(n_before)]
    behs = [dict(OK_BEH) for _ in range(n_before)]
    k = n_before
    pieces.append(req_bytes(k, kind, case.get("version", "1.0")))
    calls_app_at_k = kind not in ("bad_framing", "oversize", "oversize_body")
    if calls_app_at_k:
        behs.append(beh_for(kind, case.get("exc", "ValueError")))
    tail = []
    for j, a in enumerate(after):
        if a == "req":
            tail.append(req_bytes(k + 1 + j))
        elif a == "partial":
            tail.append("POST /k%d HTTP/1.1\r\nHost: h\r\nX-Conn: 0\r\nContent-Length: 10\r\n\r\nabc" % (k + 1 + j))
        else:
            tail.append("\x00\xffgarbage\r\n\r\n")
        behs.append(dict(OK_BEH))
    behs.append(dict(OK_BEH))
    head = "".join(pieces)
    mode = case.get("arrival", "same")
    if mode == "same":
        segs = [head + "".join(tail)]
    elif mode == "later":
        segs = [head] + tail
    else:  # split inside the closing message
        cut = len(head) - max(1, len(pieces[-1]) // 2)
        segs = [head[:cut], head[cut:] + "".join(tail)]
    adj = {"threads": case.get("workers", 1), "channel_request_lookahead": case.get("lookahead", 0)}
    if kind == "oversize":
        adj["max_request_header_size"] = 400
    if kind == "oversize_body":
        adj["max_request_body_size"] = 10
    if "lse" in case:
        adj["log_socket_errors"] = bool(case["lse"])
    sc = {"adj": adj, "gran": case.get("gran", "sync"), "apps": behs, "sndbuf": case.get("sndbuf", 1 << 20),
          "conns": [{"segments": [x for x in segs if x], "capacity": case.get("capacity"), "drain": case.get("drain", "all")}]}
    expected = ["/k%d" % i for i in range(n_before)] + (["/k%d" % k] if calls_app_at_k else [])
    closing = kind != "none"
    if not closing:
        for j, a in enumerate(after):
            if a == "req":
                expected.append("/k%d" % (k + 1 + j))
            else:
                break
    return sc, expected, k


def validate(case):
    if case.get("kind") not in KINDS or not isinstance(case.get("before"), int) or not (0 <= case["before"] <= 3):
        raise C.CaseInvalid("shape")
    if not isinstance(case.get("after"), list) or len(case["after"]) > 3 or any(a not in ("req", "partial", "garbage") for a in case["after"]):
        raise C.CaseInvalid("after")
    if case.get("arrival", "same") not in ("same", "later", "split") or case.get("lookahead", 0) not in (0, 1, 2, 5):
        raise C.CaseInvalid("arrival")
    if case.get("workers", 1) not in (1, 2, 3) or case.get("gran", "sync") not in ("sync", "line"):
        raise C.CaseInvalid("workers")
    if case.get("version", "1.0") not in VERSIONS:
        raise C.CaseInvalid("version")
    if case.get("exc", "ValueError") not in EXCS:
        raise C.CaseInvalid("exc")
    if case.get("capacity") is not None and (not isinstance(case["capacity"], int) or case["capacity"] < 1):
        raise C.CaseInvalid("capacity")


def run_case_full(case, source=None, record=False):
    validate(case)
    sc, expected, k = to_scenario(case)
    if source is None:
        try:
            source = S.make_source(case.get("schedule"))
        except Exception:
            raise C.CaseInvalid("schedule")
    try:
        r, sched = run_scenario(sc, source, record_decisions=record)
    except simsched.Overrun:
        return [], False, {"overrun"}, None, None
    fails = []

    def fail(sig, detail):
        fails.append({"sig": "C11/" + sig, "detail": detail})

    if r.handle_errors:
        fail("handle-error/" + str(r.handle_errors[0][1]), "%r" % (r.handle_errors[0],))
    for name, d in r.died:
        fail("thread-died/" + d[0], "%s: %s" % (name, d[1]))
    executed = [c["path"] for c in r.app.calls]
    extra = [p for p in executed if p not in expected]
    if extra and case["kind"] != "none":
        fail("executed-after-close/%s" % case["kind"], "requests %r were executed although message %d (%s) closes the connection; executed %r" % (
            extra, k, case["kind"], executed))
    # trace invariant: no application call of this connection starts after the close decision
    dec = [e for e in r.chan_events if e[3] in ("close_when_flushed", "will_close")]
    if dec:
        t0 = min(e[0] for e in dec)
        late = [(ev, key, idx, step, th) for (ev, key, idx, step, th) in r.app_spans if ev == "enter" and step > t0]
        if late:
            fail("call-after-decision/%s" % case["kind"], "application call %r started at step %d, after the close decision at step %d (%s by %s)" % (
                late[0][2], late[0][3], t0, dec[0][3], dec[0][1]))
    # no response to a later message
    c = r.conns[0]
    rs, _u, _p = RESP.parse_responses(c["rx"] + c["pending"], [b"GET"] * 8, eof=c["closed"], final_marker=b"x-call")
    finals = [x for x in rs if not x.interim]
    if case["kind"] != "none" and len(finals) > k + 1:
        fail("response-after-close/%s" % case["kind"], "%d final responses, the closing message is number %d" % (len(finals), k))
    labels = {"kind:" + case["kind"], "lookahead:%d" % case.get("lookahead", 0), "arrival:" + case.get("arrival", "same"), "gran:" + case.get("gran", "sync")}
    got_followup = sum(n for _t, n in c["recv_log"]) > len("".join(req_bytes(i) for i in range(case["before"]))) + len(req_bytes(k, case["kind"], case.get("version", "1.0")))
    if got_followup:
        labels.add("followup-was-read")
    nontrivial = r.preemptions > 0 and (got_followup or c["unread_in"] > 0) and bool(case["after"])
    return fails, nontrivial, labels, r.trace, sched


def run_case(case):
    return run_case_full(case)[0]


def case_strategy():
    return st.fixed_dictionaries({
        "before": st.integers(0, 2), "kind": st.sampled_from(KINDS[:-1] + ["conn_close", "app_exc", "app_exc_mid"]),
        "exc": st.sampled_from(EXCS), "lse": st.booleans(), "version": st.sampled_from(VERSIONS),
        "after": st.lists(st.sampled_from(["req", "req", "partial", "garbage"]), min_size=1, max_size=3),
        "arrival": st.sampled_from(["same", "later", "later", "split"]), "lookahead": st.sampled_from([0, 1, 1, 2, 5]),
        "workers": st.sampled_from([1, 1, 2]), "capacity": st.sampled_from([None, None, 10, 60]), "drain": st.sampled_from(["all", 8]),
        "gran": st.sampled_from(["sync", "sync", "line"]), "schedule": S.schedule_strategy(),
    })


FIXED = [
    {"before": 0, "kind": "conn_close", "after": ["req"], "arrival": "later", "lookahead": 1, "workers": 1, "bound2": True},
    {"before": 0, "kind": "http10", "after": ["req"], "arrival": "later", "lookahead": 2, "workers": 1, "bound2": True},
    {"before": 1, "kind": "app_exc", "after": ["req", "req"], "arrival": "same", "lookahead": 1, "workers": 2},
    {"before": 0, "kind": "app_short", "after": ["req"], "arrival": "later", "lookahead": 1, "workers": 1, "capacity": 20, "drain": 8},
    {"before": 0, "kind": "bad_framing", "after": ["req"], "arrival": "later", "lookahead": 0, "workers": 1, "bound2": True},
    {"before": 1, "kind": "conn_close", "after": ["partial", "req"], "arrival": "later", "lookahead": 5, "workers": 2},
    {"before": 0, "kind": "app_no_length_10", "after": ["req"], "arrival": "split", "lookahead": 1, "workers": 1},
    {"before": 0, "kind": "oversize", "after": ["req"], "arrival": "same", "lookahead": 2, "workers": 1},
    {"before": 0, "kind": "app_exc_mid", "exc": "ValueError", "after": ["req"], "arrival": "same", "lookahead": 1, "workers": 1},
    {"before": 0, "kind": "app_exc_mid", "exc": "ConnectionResetError", "lse": False, "after": ["req", "req"], "arrival": "same", "lookahead": 1, "workers": 1},
    {"before": 1, "kind": "app_exc_mid", "exc": "FileNotFoundError", "lse": False, "after": ["req"], "arrival": "later", "lookahead": 0, "workers": 2},
    {"before": 0, "kind": "app_exc", "exc": "OSError", "lse": False, "after": ["req"], "arrival": "same", "lookahead": 2, "workers": 1},
    {"before": 0, "kind": "te_non11", "version": "1.0", "after": ["req"], "arrival": "same", "lookahead": 1, "workers": 1},
    {"before": 0, "kind": "app_exc", "exc": "ValueError", "after": ["req"], "arrival": "later", "lookahead": 1, "workers": 1, "bound2": True},
    {"before": 0, "kind": "app_short", "after": ["req"], "arrival": "later", "lookahead": 1, "workers": 1, "bound2": True},
    {"before": 0, "kind": "app_exc_mid", "exc": "OSError", "lse": False, "after": ["req"], "arrival": "later", "lookahead": 1, "workers": 1, "bound2": True},
    {"before": 1, "kind": "te_non11", "version": "1.2", "after": ["req", "req"], "arrival": "later", "lookahead": 2, "workers": 2},
    {"before": 0, "kind": "te_non11", "version": "0.9", "after": ["req"], "arrival": "later", "lookahead": 0, "workers": 1, "bound2": True},
]


def jobs(tier, seed):
    return SP.jobs(sys.modules[__name__], tier, seed)


def run_job(job, col):
    SP.run_job(sys.modules[__name__], job, col)
