"""C15 - Untrusted peers cannot influence connection metadata.

Two-run (metamorphic) non-interference: for a peer that is not the configured trusted proxy, the
environ produced by a request carrying arbitrary Forwarded / X-Forwarded-* headers equals the one
produced by the same request with those headers deleted - at middleware level and end-to-end.
"""
from hypothesis import strategies as st

from .. import case as C
from ..case import s2b
from ..gen import proxy as P
from ..runner import derive_seed, hyp_run
from . import c16

PID = "C15"
LEVEL = "exploration"
TECHNIQUE = ("two-run non-interference testing: same request with and without generated (well-formed, malformed, hostile) "
             "proxy headers from peers != trusted_proxy, across every allowed trust configuration; middleware level and "
             "end-to-end through the real server")
RULE = ("case = (peer address, trusted_proxy in {None, address}, allowed subset of trusted_proxy_headers, count, "
        "clear_untrusted on/off, values of the six proxy headers); peers are chosen near the trusted address (substring, "
        "superstring, case/zone variants) as well as unrelated; non-trivial = at least one proxy header is present whose "
        "value would change metadata if the peer were trusted; distinct by case hash")
ASSUMPTIONS = ["trusted_proxy='*' is excluded (every peer is trusted then)",
               "peer != trusted_proxy is string inequality of the address the server reports as REMOTE_ADDR"]
META = c16.META
TRUSTED = [None, "127.0.0.10", "192.168.1.10", "fe80::1", "10.9.8.7", "localhost", "2001:db8::10"]


def near_peers(t):
    if t is None:
        return ["127.0.0.1", "10.9.8.7", "fe80::1%eth0", "localhost"]
    out = {t[:-1], t + "0", t.upper(), t + "%eth1", t + " ", " " + t, t.replace("1", "2", 1), "10.0.0.99", t[1:], "0" + t, t + ".", ""}
    out.discard(t)
    return sorted(x for x in out if x != t)


def would_matter(hdrs):
    v = hdrs
    return bool(v.get("x-forwarded-for") or v.get("x-forwarded-host") or v.get("x-forwarded-proto") or v.get("x-forwarded-port") or v.get("forwarded"))


def run_case_full(case):
    hdrs, tph, count, clear = case.get("hdrs"), case.get("tph") or [], case.get("count"), case.get("clear", True)
    peer, trusted = case.get("peer"), case.get("trusted")
    if not isinstance(hdrs, dict) or not isinstance(peer, str) or peer == trusted or trusted == "*":
        raise C.CaseInvalid("shape")
    if any(k not in P.KINDS for k in list(hdrs) + list(tph)) or ("forwarded" in tph and len(tph) > 1):
        raise C.CaseInvalid("kinds")
    if trusted is None and (tph or count is not None):
        raise C.CaseInvalid("config")
    if any(not isinstance(v, str) for v in hdrs.values()):
        raise C.CaseInvalid("values")
    fails = []

    def fail(sig, detail):
        fails.append({"sig": "C15/" + sig, "detail": detail})

    cnt = count or 1
    labels = {"trusted:" + ("none" if trusted is None else "addr"), "clear:%s" % clear}
    if case.get("e2e"):
        run_e2e(case, fail)
        return fails, would_matter(hdrs), labels | {"end-to-end"}
    st_a, env_a, exc_a = c16.run_mw(hdrs, tph or ["x-forwarded-proto"], cnt, clear, peer=peer, trusted=trusted)
    st_b, env_b, exc_b = c16.run_mw({}, tph or ["x-forwarded-proto"], cnt, clear, peer=peer, trusted=trusted)
    if exc_a:
        fail("raises/" + exc_a, "untrusted peer %r (trusted %r): %s for %r" % (peer, trusted, exc_a, hdrs))
        return fails, True, labels
    if st_a != "200":
        fail("status/%s" % st_a, "untrusted peer %r got %r for %r" % (peer, st_a, hdrs))
        return fails, True, labels
    for k in META:
        if env_a.get(k) != env_b.get(k):
            fail("metadata-changed/" + k, "peer %r is not trusted_proxy %r, yet %s = %r (without the headers: %r); headers %r" % (
                peer, trusted, k, env_a.get(k), env_b.get(k), hdrs))
    if clear:
        for k in hdrs:
            if P.ENV[k] in env_a:
                fail("not-cleared/" + k, "%s=%r reached the application from untrusted peer %r" % (P.ENV[k], env_a[P.ENV[k]], peer))
        if not fails and env_a != env_b:
            fail("environ-differs", "%r" % (sorted(set(env_a.items()) ^ set(env_b.items()))[:4],))
    else:
        ea = {k: v for k, v in env_a.items() if k not in P.ENV.values()}
        eb = {k: v for k, v in env_b.items() if k not in P.ENV.values()}
        if not fails and ea != eb:
            fail("environ-differs", "%r" % (sorted(set(ea.items()) ^ set(eb.items()))[:4],))
        for k, v in hdrs.items():
            if env_a.get(P.ENV[k]) != v:
                fail("header-altered/" + k, "clear is off, yet %s = %r instead of %r" % (P.ENV[k], env_a.get(P.ENV[k]), v))
    return fails, would_matter(hdrs), labels


def run_e2e(case, fail):
    from ..world import RecApp, observe
    import warnings
    warnings.simplefilter("ignore")
    hdrs = case["hdrs"]
    for v in hdrs.values():
        if any(ord(ch) < 0x20 or ord(ch) == 0x7F or ord(ch) > 0xFF for ch in v) or v != v.strip(" \t"):
            raise C.CaseInvalid("not a field value")
    adj = {"clear_untrusted_proxy_headers": case.get("clear", True)}
    if case.get("trusted") is not None:
        adj["trusted_proxy"] = case["trusted"]
        if case.get("tph"):
            adj["trusted_proxy_headers"] = " ".join(case["tph"])
        if case.get("count"):
            adj["trusted_proxy_count"] = case["count"]
    peer = case["peer"]
    addr = (peer, 5555) if ":" not in peer else (peer, 5555, 0, 0)
    if case.get("unix") and case.get("unix_peer_name") is not None:
        # accept() on a unix socket reports the path the *client* bound its end to (a name the client chooses; '' when it did not bind)
        addr = case["unix_peer_name"]
    envs = []
    for with_h in (True, False):
        lines = "".join("%s: %s\r\n" % (P.HDR[k], v) for k, v in hdrs.items()) if with_h else ""
        o = observe([s2b("GET /p HTTP/1.1\r\nHost: origin.example\r\n" + lines + "\r\n")], adj=adj, eof=False, addr=addr,
                    unix=case.get("unix", False))
        if o.exception or o.handle_errors:
            fail("e2e-raises", "%r %r" % (o.exception, o.handle_errors[:1]))
            return []
        finals = [r for r in o.responses if not r.interim]
        if len(o.calls) != 1 or not finals or finals[0].status != 200:
            fail("e2e-status/%s" % (finals[0].status if finals else None), "untrusted peer %r: statuses %r for %r" % (peer, [r.status for r in finals], hdrs if with_h else {}))
            return []
        envs.append(o.calls[0]["environ"])
    a, b = envs
    for k in META:
        if a.get(k) != b.get(k):
            fail("metadata-changed/" + k, "end-to-end: peer %r, trusted %r: %s = %r vs %r" % (peer, case.get("trusted"), k, a.get(k), b.get(k)))
    if case.get("clear", True):
        for k in hdrs:
            if P.ENV[k] in a:
                fail("not-cleared/" + k, "end-to-end: %s reached the application" % P.ENV[k])
    return []


def run_case(case):
    return run_case_full(case)[0]


HOSTILE = {
    "x-forwarded-for": ["6.6.6.6", "6.6.6.6, 7.7.7.7", "\"[::1]\"", "", " ", "\"", ":80", "[", "a" * 300],
    "x-forwarded-host": ["evil.example", "evil.example:8443", ":80", "", "\"", "a, b"],
    "x-forwarded-proto": ["https", "HTTPS", "ftp", "http,https", "", "\""],
    "x-forwarded-port": ["6666", "443", "80,443", "", "abc"],
    "x-forwarded-by": ["evil", ""],
    "forwarded": ["for=6.6.6.6;host=evil.example;proto=https", "for=\"[::1]:99\"", "for", "=", "for=:80", "proto=ftp", "", ";", "for=1.1.1.1, for=2.2.2.2;host=h:1"],
}


def table_cases():
    for trusted in TRUSTED:
        subsets = [[]] if trusted is None else [[], ["forwarded"], ["x-forwarded-for", "x-forwarded-host", "x-forwarded-proto", "x-forwarded-port", "x-forwarded-by"], ["x-forwarded-proto"]]
        for tph in subsets:
            for peer in near_peers(trusted):
                for clear in (True, False):
                    for kind, vals in HOSTILE.items():
                        for v in vals:
                            yield {"peer": peer, "trusted": trusted, "tph": tph, "count": (2 if tph else None) if trusted else None,
                                   "clear": clear, "hdrs": {kind: v}}
                    yield {"peer": peer, "trusted": trusted, "tph": tph, "count": None, "clear": clear,
                           "hdrs": {k: v[0] for k, v in HOSTILE.items()}}


def e2e_cases():
    for i, c in enumerate(table_cases()):
        if i % 23 == 0:
            yield dict(c, e2e=True)
    for trusted, peer in (("127.0.0.10", "127.0.0.1"), ("fe80::1", "fe80::1%eth1"), ("localhost", "127.0.0.1"), (None, "10.1.1.1")):
        for clear in (True, False):
            yield {"peer": peer, "trusted": trusted, "tph": ["forwarded"] if trusted else [], "count": None, "clear": clear, "e2e": True,
                   "hdrs": {"forwarded": "for=6.6.6.6;host=evil.example;proto=https", "x-forwarded-proto": "https", "x-forwarded-for": "6.6.6.6"}}
            yield {"peer": peer, "trusted": trusted, "tph": ["x-forwarded-for", "x-forwarded-host", "x-forwarded-proto", "x-forwarded-port"] if trusted else [],
                   "count": None, "clear": clear, "e2e": True,
                   "hdrs": {"x-forwarded-proto": "https", "x-forwarded-for": "6.6.6.6:99", "x-forwarded-host": "evil.example:8443", "x-forwarded-port": "1"}}
    # a unix-socket client that bound its own end to a name of its choosing - e.g. one that reads like the trusted proxy's address
    for name in ("", "10.0.0.1", "./10.0.0.1", "192.168.1.1", "\x00abstract", "/tmp/c.sock"):
        for trusted in ("10.0.0.1", "192.168.1.1", "./10.0.0.1"):
            yield {"peer": "localhost", "trusted": trusted, "tph": ["x-forwarded-for", "x-forwarded-host", "x-forwarded-proto"], "count": None, "clear": True, "e2e": True,
                   "unix": True, "unix_peer_name": name,
                   "hdrs": {"x-forwarded-proto": "https", "x-forwarded-for": "6.6.6.6", "x-forwarded-host": "evil.example:8443"}}
    # a unix-socket peer is 'localhost'
    yield {"peer": "localhost", "trusted": "127.0.0.1", "tph": ["forwarded"], "count": None, "clear": True, "e2e": True, "unix": True,
           "hdrs": {"forwarded": "for=6.6.6.6;host=evil.example;proto=https"}}


def case_strategy():
    @st.composite
    def build(draw):
        trusted = draw(st.sampled_from(TRUSTED))
        tph = [] if trusted is None else draw(st.sampled_from([[]] + P.allowed_subsets()))
        count = draw(st.sampled_from([None, 1, 2, 4])) if trusted is not None else None
        peer = draw(st.one_of(st.sampled_from(near_peers(trusted)), st.sampled_from(["203.0.113.5", "::1", "localhost"])))
        if peer == trusted:
            peer = peer + "1"
        hdrs = {}
        for k in draw(st.lists(st.sampled_from(P.KINDS), min_size=1, max_size=6, unique=True)):
            if k == "x-forwarded-for":
                hdrs[k] = draw(P.xff_value(degenerate=True))["value"]
            elif k == "x-forwarded-host":
                hdrs[k] = draw(P.xfh_value(degenerate=True))["value"]
            elif k == "forwarded":
                hdrs[k] = draw(P.fwd_value(degenerate=True))["value"]
            elif k == "x-forwarded-proto":
                hdrs[k] = draw(P.proto_values(True))
            elif k == "x-forwarded-port":
                hdrs[k] = draw(P.port_values(True))
            else:
                hdrs[k] = draw(st.sampled_from(["x", "", "a, b"]))
        return {"peer": peer, "trusted": trusted, "tph": tph, "count": count, "clear": draw(st.booleans()), "hdrs": hdrs}

    return build()


def jobs(tier, seed):
    js = [{"kind": "table", "shard": s, "nshards": 4} for s in range(4)] + [{"kind": "e2e"}]
    n = 2500 if tier == "quick" else 60000
    for sh in range(12):
        js.append({"kind": "hyp", "n": n, "seed": derive_seed(seed, "c15", sh)})
    return js


def run_job(job, col):
    def one(case):
        try:
            fs, nt, labels = run_case_full(case)
        except C.CaseInvalid:
            col.labels["outside-domain"] += 1
            return
        col.record(case, fs, nontrivial=nt, labels=labels)

    if job["kind"] == "table":
        for i, c in enumerate(table_cases()):
            if i % job["nshards"] == job["shard"]:
                one(c)
        col.exhaustive("trusted_proxy x header subsets x near-miss peers x clear on/off x hostile values of each of the six headers")
    elif job["kind"] == "e2e":
        for c in e2e_cases():
            one(c)
    else:
        hyp_run(case_strategy(), one, job["n"], job["seed"])
