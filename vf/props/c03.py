"""C03 - Every response stream is well-framed and persistence is signalled truthfully.

Pipelines of requests x generated application behaviours (DSL) through the real stack; the wire
is parsed by an independent client-side parser (RFC 9112 6.3) and compared with what the
application produced; persistence announcements are checked against what the server then did.
"""
import itertools

from hypothesis import strategies as st

from .. import case as C
from ..case import b2s, s2b
from ..gen import apps as A
from ..refhttp import response as RESP
from ..runner import derive_seed, hyp_run
from ..world import observe

PID = "C03"
LEVEL = "exploration"
TECHNIQUE = ("property testing over a WSGI application-behaviour DSL: generated pipelines x behaviours through the real "
             "stack, wire parsed by an independent RFC 9112 client parser, compared with the bytes the application produced; "
             "exhaustive decision table version x Connection x declared length x body x HEAD x failure point")
RULE = ("case = (pipeline of 1..4 requests: method incl. HEAD, HTTP version, Connection header in any letter case) x one "
        "application behaviour per request (status class, declared Content-Length absent/exact/larger/smaller, chunk "
        "sequences incl. empty, write(), list/generator/file_wrapper seekable or not, exception at a step); non-trivial = "
        "pipeline depth >= 2, or declared length != produced, or failure after first output, or file_wrapper; distinct by case hash")
ASSUMPTIONS = [
    "applications emitting body bytes for HEAD or several / non-decimal Content-Length headers are outside the quantifier",
    "request Connection values are drawn from {absent, close, keep-alive} in any letter case (no lists)",
    "'known in advance to be the last' = the server closed after a response that was complete and correctly delimited",
]


def build_stream(reqs):
    out = ""
    for i, r in enumerate(reqs):
        out += "%s /r%d HTTP/%s\r\nHost: h\r\n" % (r["method"], i, r["version"])
        if r.get("conn"):
            out += "Connection: %s\r\n" % r["conn"]
        out += "\r\n"
    return out


def produced(app, idx, beh, method):
    """bytes the application handed to the server for request idx (from the log), and whether it faulted"""
    chunks = [c.encode("latin-1") for c in beh.get("chunks", [])]
    if method == "HEAD":
        return b"", idx in app.faults_hit
    mode = beh.get("mode", "list")
    ra = beh.get("raise_at")
    if mode == "fw":
        fw = beh.get("fw") or {}
        data = A.filepattern(fw.get("len", 10))
        return data[min(fw.get("start", 0), len(data)):], idx in app.faults_hit
    n = len(chunks)
    if ra and idx in app.faults_hit and not beh.get("recall"):
        if ra[0] in ("iter", "write"):
            if mode == "write" and ra[0] == "iter":
                n = min(len(chunks), beh.get("n_write", len(chunks)) + ra[1])
            else:
                n = min(len(chunks), ra[1])
        elif ra[0] in ("call", "start_response"):
            n = 0
        elif ra[0] == "return":
            n = beh.get("n_write", 0) if mode == "write" else 0
    return b"".join(chunks[:n]), idx in app.faults_hit


def check(case, o, app):
    fails = []

    def fail(sig, detail):
        fails.append({"sig": "C03/" + sig, "detail": detail})

    reqs = case["reqs"]
    behs = case["behs"]
    methods = [s2b(r["method"]) for r in reqs]
    responses, upto, problem = RESP.parse_responses(o.wire, methods, eof=o.closed, final_marker=b"x-call")
    finals = [r for r in responses if not r.interim]
    labels = set()
    if o.exception or o.handle_errors:
        fail("raises", "%r %r" % (o.exception, o.handle_errors[:1]))
        return fails, labels
    if o.spin:
        fail("stalled-output", "the loop spins on a writable socket without delivering: %d bytes pending in the channel" % o.pending_out)
        return fails, labels
    if len(finals) > len(reqs):
        fail("more-responses-than-requests", "%d responses for %d requests" % (len(finals), len(reqs)))
        return fails, labels
    for i, r in enumerate(finals):
        req = reqs[i]
        beh = behs[i % len(behs)]
        last = i == len(finals) - 1
        body_app, faulted = produced(app, i, beh, req["method"])
        is_app = bool(r.get(b"x-call"))
        conn_vals = [t.strip().lower() for v in r.get(b"connection") for t in v.split(b",")]
        says_close = b"close" in conn_vals
        says_keep = b"keep-alive" in conn_vals
        # --- (a)/(b): complete, recovers status / headers / body
        if is_app and not beh.get("recall_used"):
            st_app = beh.get("status", "200 OK")
            if r.get(b"x-recall"):
                labels.add("recall")
            else:
                if str(r.status) != st_app[:3]:
                    fail("status", "response %d has status %d, application said %r" % (i, r.status, st_app))
                for name, value in beh.get("headers", []):
                    want = (name.lower().encode("latin-1"), value.encode("latin-1"))
                    if want not in [(k.lower(), v) for k, v in r.fields]:
                        fail("app-header-missing", "response %d lacks application header %s: %s (has %r)" % (i, name, value, r.head_lines[:8]))
                no_body = req["method"] == "HEAD" or r.status in (204, 304) or 100 <= r.status < 200
                want_body = b"" if no_body else body_app
                if beh.get("declared_cl") is not None and not no_body:
                    want_body = want_body[:beh["declared_cl"]]
                alt = None
                if beh.get("recall") and faulted and not no_body:
                    # start_response(exc_info) after the head was sent re-raises: production stops at the fault point
                    alt = produced(app, i, dict(beh, recall=False), req["method"])[0]
                    if beh.get("declared_cl") is not None:
                        alt = alt[:beh["declared_cl"]]
                if r.complete:
                    if r.body != want_body and r.body != alt:
                        fail("body", "response %d (%s) body %d bytes %r..., application produced %d bytes %r..." % (
                            i, r.framing, len(r.body), r.body[:40], len(want_body), want_body[:40]))
                else:
                    if not want_body.startswith(r.body) and not r.body.startswith(want_body):
                        fail("body-prefix", "response %d incomplete and not a prefix of what the application produced" % i)
        elif not is_app:
            labels.add("server-500")
            if r.status != 500:
                fail("unexpected-server-response", "response %d is a server-generated %d" % (i, r.status))
            if not faulted:
                fail("500-without-fault", "response %d is a 500 but the application did not fail" % i)
        # --- (c) cannot be delimited as announced => EOF next
        if not r.complete:
            labels.add("undelimitable")
            if not last:
                fail("response-after-incomplete", "response %d could not be delimited as announced but another response follows" % i)
            if not o.closed:
                fail("not-closed-after-incomplete", "response %d incomplete (%s) and the connection is still open" % (i, problem))
        else:
            followed = not last
            if says_close and followed:
                fail("served-after-close-announcement", "response %d says Connection: close but response %d follows" % (i, i + 1))
            if says_close and last and not o.closed:
                fail("close-announced-not-closed", "response %d says Connection: close but the connection stays open" % i)
            keeps = (not says_close) if r.version == b"1.1" else says_keep
            if says_close and says_keep:
                fail("contradictory-connection-headers", "response %d announces both close and keep-alive: %r" % (i, r.get(b"connection")))
            elif keeps and last and i + 1 < len(reqs):
                # (e) announced persistence must be honoured ... unless the body produced later turned out undeliverable
                aborted_after_head = faulted and is_app
                if not aborted_after_head:
                    fail("keepalive-announced-not-served/%s" % b2s(r.version),
                         "response %d (HTTP/%s, Connection %r) announces persistence but request %d was not served (closed=%s)" % (
                             i, b2s(r.version), r.get(b"connection"), i + 1, o.closed))
            if last and o.closed and not says_close and r.framing != "close":
                # (d) closing that was known in advance must be announced
                aborted_after_head = faulted and is_app
                if not aborted_after_head and i + 1 <= len(reqs):
                    fail("closed-without-announcement/%s" % b2s(r.version),
                         "response %d was complete, did not say Connection: close, yet the server closed" % i)
    if problem and not (finals and not finals[-1].complete):
        fail("stray-bytes", "wire is not a sequence of complete responses: %s (parsed up to %d of %d)" % (problem, upto, len(o.wire)))
    if not finals and reqs:
        fail("no-response", "no response at all (closed=%s, wire %r)" % (o.closed, o.wire[:60]))
    # every application call has its response unless the stream ended in an abort
    if len(app.calls) > len(finals) and not (finals and not finals[-1].complete):
        if not (o.closed and len(app.calls) == len(finals) + 1 and (len(app.calls) - 1) in app.faults_hit):
            fail("call-without-response", "%d application calls, %d responses" % (len(app.calls), len(finals)))
    labels.add("responses:%d" % len(finals))
    return fails, labels


def run_case_full(case):
    reqs, behs = case.get("reqs"), case.get("behs")
    if not reqs or not behs or len(reqs) > 6:
        raise C.CaseInvalid("shape")
    for r in reqs:
        if r.get("method") not in ("GET", "HEAD", "POST", "DELETE") or r.get("version") not in ("1.0", "1.1"):
            raise C.CaseInvalid("request")
        if r.get("conn") and r["conn"].lower() not in ("close", "keep-alive"):
            raise C.CaseInvalid("conn")
    for b in behs:
        if not isinstance(b.get("status", "200 OK"), str) or len(b.get("status", "200 OK")) < 3 or not b.get("status", "200 OK")[:3].isdigit():
            raise C.CaseInvalid("status")
        for ch in b.get("chunks", []):
            if not isinstance(ch, str):
                raise C.CaseInvalid("chunk")
    app = A.DslApp(behs)
    stream = s2b(build_stream(reqs))
    adj = dict(case.get("adj") or {})
    o = observe([stream], adj=adj, eof=False, app=app, send_caps=case.get("send_caps"))
    fails, labels = check(case, o, app)
    nontrivial = len(reqs) >= 2
    for i, b in enumerate(behs[:len(reqs)]):
        if b.get("mode") == "fw":
            labels.add("file_wrapper")
            nontrivial = True
        if b.get("declared_cl") is not None:
            tot = sum(len(c) for c in b.get("chunks", []))
            if b.get("mode") != "fw" and b["declared_cl"] != tot:
                labels.add("declared!=produced")
                nontrivial = True
        if b.get("raise_at"):
            labels.add("fault:" + b["raise_at"][0])
            nontrivial = True
        labels.add("mode:" + b.get("mode", "list"))
    for r in reqs:
        labels.add("req:%s/%s/%s" % (r["method"] if r["method"] == "HEAD" else "x", r["version"], (r.get("conn") or "-").lower()))
    return fails, nontrivial, labels


def run_case(case):
    return run_case_full(case)[0]


# ---------------------------------------------------------------- generation
def req_strategy():
    return st.fixed_dictionaries({
        "method": st.sampled_from(["GET", "GET", "GET", "HEAD", "POST"]),
        "version": st.sampled_from(["1.1", "1.1", "1.0"]),
        "conn": st.sampled_from([None, None, "close", "keep-alive", "Keep-Alive", "Close", "KEEP-ALIVE"]),
    })


def case_strategy():
    return st.fixed_dictionaries({
        "reqs": st.lists(req_strategy(), min_size=1, max_size=4),
        "behs": st.lists(st.one_of(A.behaviour(faults=False), A.behaviour(faults=False), A.behaviour(faults=True, exc_classes=("ValueError", "ValueError", "OSError", "ConnectionResetError"))), min_size=1, max_size=4),
        "send_caps": st.sampled_from([None, [1], [7, 3], [100, 0, 5], [50], [120, 1]]),
        "adj": st.sampled_from([{}, {"outbuf_overflow": 8}, {"outbuf_overflow": 64, "send_bytes": 30}, {"outbuf_overflow": 150}, {"outbuf_overflow": 300},
                                {"log_socket_errors": False}, {"log_socket_errors": False, "outbuf_overflow": 64}]),
    })


def table_cases():
    """version x Connection x declared x has-body x HEAD x mode x failure point"""
    for version, conn in (("1.1", None), ("1.1", "close"), ("1.1", "keep-alive"), ("1.0", None), ("1.0", "keep-alive"), ("1.0", "close")):
        for method in ("GET", "HEAD"):
            for status in ("200 OK", "204 No Content", "304 Not Modified", "500 Err"):
                for mode in ("list", "purelist", "gen", "write", "fw"):
                    for chunks in ([], ["abc"], ["ab", "", "cde"]):
                        tot = sum(len(c) for c in chunks)
                        for dcl in (None, tot, tot + 2, max(0, tot - 1)):
                            for ra in (None, ["iter", 0], ["iter", 1], ["call"], ["close"]):
                                beh = {"status": status, "mode": mode, "chunks": chunks, "headers": [["X-A", "b"]]}
                                if mode == "fw":
                                    beh["fw"] = {"seekable": dcl != tot + 2, "len": 6, "start": 1, "closeable": True, "block": 4}
                                if mode == "gen":
                                    beh["late_start"] = bool(len(chunks) % 2)
                                if dcl is not None:
                                    beh["declared_cl"] = dcl
                                case = {"reqs": [{"method": method, "version": version, "conn": conn},
                                                 {"method": "GET", "version": "1.1", "conn": None}],
                                        "behs": [beh, {"status": "200 OK", "mode": "list", "chunks": ["next"], "declared_cl": 4}]}
                                if ra:
                                    beh["raise_at"] = ra
                                    beh["exc"] = "ValueError"
                                    if status == "200 OK" and mode in ("gen", "write"):
                                        # the same failure as an OSError, with socket-error logging off
                                        b2 = dict(beh, exc="ConnectionResetError")
                                        yield dict(case, behs=[b2, case["behs"][1]], adj={"log_socket_errors": False})
                                yield case


def jobs(tier, seed):
    js = [{"kind": "table", "shard": s, "nshards": 16} for s in range(16)]
    n = 3000 if tier == "quick" else 60000
    for sh in range(16):
        js.append({"kind": "hyp", "n": n, "seed": derive_seed(seed, "c03", sh)})
    return js


def run_job(job, col):
    def one(case):
        fs, nt, labels = run_case_full(case)
        col.record(case, fs, nontrivial=nt, labels=labels)

    if job["kind"] == "table":
        for i, c in enumerate(table_cases()):
            if i % job["nshards"] == job["shard"]:
                one(c)
        col.exhaustive("decision table: 6 (version,Connection) x GET/HEAD x 4 statuses x 5 body modes x 3 chunk lists x 4 declared lengths x 5 failure points, each followed by a second request")
    else:
        hyp_run(case_strategy(), one, job["n"], job["seed"])
