"""C08 - Applications cannot split or inject into the response head.

Status strings and header lists over the full str alphabet (an offending character at every
position; non-string objects; hop-by-hop names) are handed to the real start_response through
four routes; the head on the wire is checked line by line.
"""
import sys

from hypothesis import strategies as st

from .. import case as C
from ..runner import derive_seed, hyp_run
from ..world import observe

PID = "C08"
LEVEL = "exploration"
TECHNIQUE = ("positional enumeration + property testing over application-supplied status/header strings (offending "
             "character at every position, non-string objects, hop-by-hop names, 4 delivery routes); line-wise oracle on "
             "the response head bytes")
RULE = ("case = (status, header list, route in {initial start_response, exc_info re-call, file_wrapper response, list "
        "mutated after the call}); strings over the full str alphabet: a valid base plus CR, LF, CRLF, NUL, VT, U+0085, "
        "U+2028, a non-latin-1 code point, SP, ':' inserted at every position of status, name and value (enumerated), "
        "non-str names/values, hop-by-hop names in any case, plus Hypothesis-generated strings; non-trivial = the case "
        "contains an offending character / type / hop-by-hop name; distinct by case hash")
ASSUMPTIONS = [
    "strings outside the HTTP grammar but without CR/LF (NUL, VT, colon or space in a name, non-latin-1) may be emitted or refused; injection is checked in both outcomes",
    "Content-Length is generated only with the true body length, padded/decorated with offending characters (C03 owns mismatching lengths)",
]
SERVER_FIELDS = (b"date", b"server", b"via", b"connection", b"content-length", b"transfer-encoding")
HOP = ("connection", "keep-alive", "proxy-authenticate", "proxy-authorization", "te", "trailer", "transfer-encoding", "upgrade")


def decode_obj(x):
    """JSON -> python object handed to start_response"""
    if isinstance(x, dict):
        if "bytes" in x:
            return x["bytes"].encode("latin-1", "replace")
        if "int" in x:
            return x["int"]
        if "none" in x:
            return None
        if "list" in x:
            return [decode_obj(y) for y in x["list"]]
    return x


class App:
    def __init__(self, case):
        self.case = case
        self.calls = []

    def __call__(self, environ, start_response):
        self.calls.append({"method": environ["REQUEST_METHOD"]})
        c = self.case
        route = c.get("route", "initial")
        status = decode_obj(c["status"])
        aslist = c.get("pairs_as_lists", False)
        hdrs = [([decode_obj(k), decode_obj(v)] if aslist else (decode_obj(k), decode_obj(v))) for k, v in c["headers"]]
        if route == "recall":
            start_response("200 OK", [("X-First", "1")])
            try:
                raise ValueError("first attempt failed")
            except ValueError:
                start_response(status, hdrs, sys.exc_info())
        elif route == "swallow":
            # an application that catches whatever start_response raises and carries on: a refused call must leave nothing behind
            try:
                start_response(status, hdrs)
            except Exception:
                pass
        else:
            start_response(status, hdrs)
        if route == "mutate":
            m = c.get("mutation") or ["append", "X-Late", "v\r\nInjected: late"]
            if m[0] == "append":
                hdrs.append((m[1], m[2]))
            elif m[0] == "replace0" and hdrs:
                hdrs[0] = (m[1], m[2])
            elif m[0] == "inner" and hdrs and aslist:
                hdrs[0][1] = m[2]
            elif m[0] == "clear":
                del hdrs[:]
        if route == "fw":
            import io
            return environ["wsgi.file_wrapper"](io.BytesIO(b"filebody"))
        return [b"ok"]


_B500 = None


def baseline_500():
    """head of a 500 the server builds on its own (to tell server strings from application strings)"""
    global _B500
    if _B500 is None:
        o = observe([b"GET / HTTP/1.1\r\nHost: h\r\n\r\n"], adj={}, eof=False,
                    app=App({"status": {"int": 1}, "headers": [], "route": "initial"}))
        _B500 = o.wire[:o.wire.find(b"\r\n\r\n")]
    return _B500


def offending(s):
    return isinstance(s, str) and ("\r" in s or "\n" in s)


def check(case, o):
    fails = []

    def fail(sig, detail):
        fails.append({"sig": "C08/" + sig, "detail": detail})

    if o.exception or o.handle_errors:
        fail("raises", "%r %r" % (o.exception, o.handle_errors[:1]))
        return fails
    wire = o.wire
    he = wire.find(b"\r\n\r\n")
    if he < 0:
        fail("no-head", "no complete response head on the wire: %r" % wire[:80])
        return fails
    head = wire[:he]
    lines = head.split(b"\r\n")
    for ln in lines:
        if b"\r" in ln or b"\n" in ln:
            fail("bare-cr-lf-in-head", "head line contains a bare CR/LF: %r" % ln[:80])
    status = decode_obj(case["status"])
    hdrs = [(decode_obj(k), decode_obj(v)) for k, v in case["headers"]]
    mut = case.get("mutation") if case.get("route") == "mutate" else None
    must_refuse = (not isinstance(status, str)) or offending(status)
    for k, v in hdrs:
        if not isinstance(k, str) or not isinstance(v, str) or offending(k) or offending(v):
            must_refuse = True
        elif k.lower() in HOP:
            must_refuse = True
    sl = lines[0]
    is500 = sl.startswith(b"HTTP/1.1 500 ") or sl.startswith(b"HTTP/1.0 500 ")
    app_status_line = None
    if isinstance(status, str):
        try:
            app_status_line = b"HTTP/1.1 " + status.encode("latin-1")
        except UnicodeEncodeError:
            app_status_line = None
    emitted = app_status_line is not None and sl == app_status_line and not (is500 and not str(status).startswith("500"))
    if sl == b"HTTP/1.1 500 Internal Server Error" and status != "500 Internal Server Error":
        emitted = False
    if must_refuse and case.get("route") == "swallow":
        # the call was refused and the application went on regardless: whatever is sent, it carries none of the refused fields
        for ln in lines[1:]:
            name = ln.split(b":", 1)[0].lower()
            if name not in SERVER_FIELDS + (b"content-type",):
                fail("refused-field-emitted", "start_response refused the call, yet the head carries %r" % ln[:80])
        if isinstance(status, str) and offending(status) and any(p_ and p_.encode("latin-1", "replace") in head for p_ in status.replace("\r", "\n").split("\n")[1:] if len(p_) >= 6 and p_ not in "HTTP/1.1 200 OK"):
            fail("refused-status-emitted", "part of the refused status string is in the head: %r" % head[:120])
        return fails
    if must_refuse and emitted:
        fail("emitted-must-refuse", "status/headers that must be refused were emitted: status line %r" % sl[:80])
        return fails
    if not emitted:
        if not is500:
            fail("neither-emitted-nor-500", "status line %r" % sl[:80])
            return fails
        # a 500 built from server strings only: none of the application's strings may appear
        needles = []
        for k, v in hdrs + ([(mut[1], mut[2])] if mut and len(mut) > 2 else []):
            for s in (k, v):
                if isinstance(s, str) and len(s) >= 4 and s.lower() not in ("text/plain", "close") and not s.lower().startswith("text/plain"):
                    try:
                        needles.append(s.encode("latin-1"))
                    except UnicodeEncodeError:
                        needles.append(s.encode("utf-8"))
        if isinstance(status, str) and len(status) >= 4 and status[:3] != "500":
            needles.append(status.encode("utf-8", "replace"))
        base500 = baseline_500()
        for nd in needles:
            for part in nd.replace(b"\r", b"\n").split(b"\n"):
                if len(part) >= 4 and part in head and part not in base500:
                    fail("app-string-in-500-head", "application string %r appears in the head of the 500" % part[:40])
        for ln in lines[1:]:
            name = ln.split(b":", 1)[0].lower()
            if name not in SERVER_FIELDS + (b"content-type",):
                fail("unexpected-line-in-500", "%r" % ln[:80])
        return fails
    # emitted: the remaining lines are exactly one per application field + server fields
    remaining = list(lines[1:])
    for k, v in hdrs:
        try:
            kb, vb = k.encode("latin-1"), v.encode("latin-1")
        except UnicodeEncodeError:
            fail("emitted-non-latin1", "field %r emitted although it cannot be encoded" % ((k, v),))
            continue
        found = None
        for i, ln in enumerate(remaining):
            if ln.endswith(b": " + vb) or vb == b"":
                nm = ln[:len(ln) - len(vb) - 2] if ln.endswith(b": " + vb) else None
                if nm is not None and nm.decode("latin-1").casefold() == k.casefold():
                    found = i
                    break
        if found is None:
            fail("app-field-missing-or-altered", "application field %r not found verbatim among head lines %r" % ((k, v), remaining[:8]))
        else:
            remaining.pop(found)
    for ln in remaining:
        name = ln.split(b":", 1)[0].lower()
        if name not in SERVER_FIELDS:
            fail("extra-head-line", "head line %r is neither an application field nor one of the server's own" % ln[:80])
    return fails


def run_case_full(case):
    if not isinstance(case.get("headers"), list) or "status" not in case:
        raise C.CaseInvalid("shape")
    for h in case["headers"]:
        if not (isinstance(h, list) and len(h) == 2):
            raise C.CaseInvalid("header")
        if isinstance(h[0], str) and h[0].lower() == "content-length":
            v = h[1]
            want = "8" if case.get("route") == "fw" else "2"
            if not isinstance(v, str) or v.replace("\r", "").replace("\n", "").strip() not in (want, "+" + want):
                raise C.CaseInvalid("Content-Length other than the true body length is C03's")
    app = App(case)
    o = observe([b"GET / HTTP/1.1\r\nHost: h\r\n\r\n"], adj={}, eof=False, app=app)
    fails = check(case, o)
    nontrivial = False
    labels = {"route:" + case.get("route", "initial")}
    st_ = decode_obj(case["status"])
    objs = [st_] + [decode_obj(x) for h in case["headers"] for x in h]
    for s in objs:
        if not isinstance(s, str):
            labels.add("non-str")
            nontrivial = True
        elif any(ch in s for ch in "\r\n"):
            labels.add("crlf")
            nontrivial = True
        elif any(ord(ch) < 0x20 or ord(ch) == 0x7F or ord(ch) > 0x7E for ch in s):
            labels.add("ctl-or-non-ascii")
            nontrivial = True
    for h in case["headers"]:
        k = decode_obj(h[0])
        if isinstance(k, str) and (k.lower() in HOP):
            labels.add("hop-by-hop")
            nontrivial = True
        if isinstance(k, str) and (k == "" or ":" in k or " " in k):
            labels.add("odd-name")
            nontrivial = True
    if case.get("route") == "mutate":
        nontrivial = True
    return fails, nontrivial, labels


def run_case(case):
    if case.get("optimized") and not sys.flags.optimize:
        # replay of a case found in the -O interpreter: same interpreter flags
        import json
        import os
        import subprocess
        root = os.path.dirname(os.path.dirname(os.path.dirname(os.path.abspath(__file__))))
        prog = ("import sys, json; sys.path.insert(0, %r); from vf import runner; runner.setup_path(); from vf.props import c08\n"
                "json.dump(c08.run_case(json.load(sys.stdin)), sys.stdout)\n") % root
        p = subprocess.run([sys.executable, "-O", "-c", prog], input=json.dumps(case), stdout=subprocess.PIPE, stderr=subprocess.PIPE, text=True)
        if p.returncode != 0:
            raise C.CaseInvalid("python -O subprocess: " + p.stderr[-300:])
        return [dict(f, sig=f["sig"].replace("C08/", "C08/python-O/", 1)) for f in json.loads(p.stdout)]
    return run_case_full(case)[0]


# ---------------------------------------------------------------- generation
BAD = ["\r", "\n", "\r\n", "\x00", "\x0b", "\x85", " ", "Ā", " ", ":", "\n ", "\r\nInjected: yes", "\nSet-Cookie: x=1",
       "\r\n\r\nHTTP/1.1 200 OK\r\nX-Split: yes"]
ROUTES = ["initial", "recall", "fw", "mutate", "swallow"]


def positional_cases():
    base_status = "200 OK"
    base = [["X-Test", "value1"], ["Content-Type", "text/plain"]]
    for route in ROUTES:
        yield {"status": base_status, "headers": base, "route": route}
        for bad in BAD:
            for pos in range(len(base_status) + 1):
                yield {"status": base_status[:pos] + bad + base_status[pos:], "headers": base, "route": route}
            for field in (0, 1):
                for part in (0, 1):
                    s = base[field][part]
                    for pos in range(len(s) + 1):
                        h = [list(x) for x in base]
                        h[field][part] = s[:pos] + bad + s[pos:]
                        yield {"status": base_status, "headers": h, "route": route}
        cl = "8" if route == "fw" else "2"
        for bad in BAD[:7] + ["\r\n", "\n\n"]:
            for name in ("Content-Length", "content-length", "CONTENT-LENGTH"):
                for v in (bad + cl, cl + bad):
                    yield {"status": base_status, "headers": base + [[name, v]], "route": route}
        for obj in ({"bytes": "X-B"}, {"int": 5}, {"none": 1}, {"list": ["a"]}):
            yield {"status": obj, "headers": base, "route": route}
            yield {"status": base_status, "headers": [[obj, "v"]] + base, "route": route}
            yield {"status": base_status, "headers": base + [["X-V", obj]], "route": route}
        for hop in HOP:
            for variant in (hop, hop.upper(), hop.title(), hop.swapcase()):
                yield {"status": base_status, "headers": base + [[variant, "x"]], "route": route}
        for name in ("", ":", "X Y", "X:Y", "X-\xe9", "x-lower", "SERVER", "date", "VIA", "Set-Cookie"):
            yield {"status": base_status, "headers": base + [[name, "v"], [name, "w"]], "route": route}
    for m in (["append", "X-Late", "v\r\nInjected: late"], ["replace0", "X-Test", "x\r\nInjected: late"], ["clear"],
              ["inner", "X-Test", "value1\r\nInjected: inner"], ["inner", "X-Test", "changed-later"]):
        for aslist in (False, True):
            yield {"status": base_status, "headers": base, "route": "mutate", "mutation": m, "pairs_as_lists": aslist}


def case_strategy():
    txt = st.text(alphabet=st.one_of(st.characters(min_codepoint=0x20, max_codepoint=0x7E),
                                     st.sampled_from(list("\r\n\x00\x0b\x7f\x85\xa0\xffĀ   \t:"))), max_size=20)
    name = st.one_of(st.sampled_from(["X-A", "Content-Type", "Set-Cookie", "Server", "Date", "Via", "X-B-C", "Connection", "TE",
                                      "Upgrade", "x", ""]), txt)
    val = st.one_of(st.sampled_from(["v", "text/plain", "a b", ""]), txt,
                    st.sampled_from([{"bytes": "b"}, {"int": 1}, {"none": 1}]))
    status = st.one_of(st.sampled_from(["200 OK", "404 Not Found", "200", "201 Created", "500 Mine"]),
                       st.builds(lambda a, b: "200 " + a + b, txt, st.sampled_from(["", "\r\n", "\n", "\r"])), txt)
    return st.fixed_dictionaries({"status": status, "headers": st.lists(st.tuples(name, val).map(list), max_size=4),
                                  "route": st.sampled_from(ROUTES), "pairs_as_lists": st.booleans()})


def jobs(tier, seed):
    js = [{"kind": "positional", "shard": s, "nshards": 8} for s in range(8)]
    # the same table in an interpreter started with -O (assert statements compiled away): the refusals must not depend on it
    js += [{"kind": "optimized", "shard": s, "nshards": 2} for s in range(2)]
    n = 1500 if tier == "quick" else 40000
    for sh in range(16):
        js.append({"kind": "hyp", "n": n, "seed": derive_seed(seed, "c08", sh)})
    return js


def run_job(job, col):
    def one(case):
        try:
            fs, nt, labels = run_case_full(case)
        except C.CaseInvalid:
            return
        col.record(case, fs, nontrivial=nt, labels=labels)

    if job["kind"] == "optimized":
        import json
        import os
        import subprocess
        root = os.path.dirname(os.path.dirname(os.path.dirname(os.path.abspath(__file__))))
        cases = [c for i, c in enumerate(positional_cases()) if i % job["nshards"] == job["shard"]]
        prog = ("import sys, json; sys.path.insert(0, %r); from vf import runner; runner.setup_path(); from vf.props import c08; from vf import case as C\n"
                "out = []\n"
                "for c in json.load(sys.stdin):\n"
                "    try:\n        out.append(c08.run_case(c))\n    except C.CaseInvalid:\n        out.append(None)\n"
                "json.dump(out, sys.stdout)\n") % root
        p = subprocess.run([sys.executable, "-O", "-c", prog], input=json.dumps(cases), stdout=subprocess.PIPE, stderr=subprocess.PIPE, text=True, env=dict(os.environ))
        if p.returncode != 0:
            raise RuntimeError("python -O subprocess failed: " + p.stderr[-1500:])
        for c, fs in zip(cases, json.loads(p.stdout)):
            if fs is None:
                continue
            col.record(dict(c, optimized=True), [dict(f, sig=f["sig"].replace("C08/", "C08/python-O/", 1)) for f in fs], nontrivial=True, labels=("python -O",))
        return
    if job["kind"] == "positional":
        for i, c in enumerate(positional_cases()):
            if i % job["nshards"] == job["shard"]:
                one(c)
        col.exhaustive("14 offending strings at every position of status / 2 names / 2 values x 4 routes; non-str objects; hop-by-hop names in 4 casings; odd names; 5 after-call mutations")
    else:
        hyp_run(case_strategy(), one, job["n"], job["seed"])
