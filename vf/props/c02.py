"""C02 - Parsing does not depend on how the byte stream is split across reads.

Metamorphic: observe(stream cut at any set of offsets) == observe(stream in one piece), on the
application-visible outcome (calls with content, final/error responses with position, close).
"""
import itertools

from hypothesis import strategies as st

from .. import case as C
from ..case import b2s, s2b
from ..gen import http as G
from ..refhttp import request as REQ
from ..runner import derive_seed, hyp_run
from ..world import observe

PID = "C02"
LEVEL = "exploration"
TECHNIQUE = ("metamorphic property testing: every generated segmentation of a byte stream must give the same "
             "application calls / responses / close decision as one-piece delivery; all single cuts, all pairs, "
             "byte-at-a-time, all 2^(n-1) cut sets for short streams and chunked bodies, Hypothesis-biased cut sets")
RULE = ("case = (byte stream, sorted cut offsets, adjustments); each segment is one recv(); streams: base sentences, "
        "malformed / oversize / pipelined / expecting variants and grammar-generated pipelines; cut sets: none, "
        "byte-at-a-time, every single cut, every pair (streams <= 90 bytes), all 2^(n-1) subsets (tiny streams; "
        "chunked bodies at parser level), generated sets biased to CR/LF neighbourhoods; non-trivial = at least one "
        "cut falls strictly inside a message (not on a message boundary of the reference parse); distinct by case hash")
ASSUMPTIONS = [
    "outcome compared = application calls (method, target, protocol, header image, body), final responses "
    "(status, body) in order, close/keep-open, exceptions reaching the last-resort handler",
    "interim 100 Continue responses are compared only for the request at the head of the connection; for later "
    "requests C19 itself makes the count depend on arrival (DESIGN.md C02)",
]


def summarize(o):
    s = o.summary()
    resp = []
    seen_final = False
    for (status, interim, body) in s["responses"]:
        if interim and seen_final:
            continue
        if not interim:
            seen_final = True
        resp.append((status, interim, body))
    s["responses"] = resp
    s["exception"] = o.exception[:2] if o.exception else None
    return s


_ref_cache = {}


def reference(stream_s, adj_key, adj):
    k = (stream_s, adj_key)
    r = _ref_cache.get(k)
    if r is None:
        if len(_ref_cache) > 200:
            _ref_cache.clear()
        r = summarize(observe([s2b(stream_s)], adj=adj, eof=True))
        _ref_cache[k] = r
    return r


def diff(a, b):
    for key in ("calls", "responses", "closed", "problem", "handle_errors", "exception", "spin"):
        if a[key] != b[key]:
            if key in ("calls", "responses"):
                if len(a[key]) != len(b[key]):
                    return key + "/count", "%d vs %d: %r vs %r" % (len(a[key]), len(b[key]), _brief(a[key]), _brief(b[key]))
                for i, (x, y) in enumerate(zip(a[key], b[key])):
                    if x != y:
                        if key == "responses" and x[0] != y[0]:
                            return "responses/status/%d~%d" % tuple(sorted((x[0], y[0]))), "response %d: %r vs %r" % (i, x[0], y[0])
                        return key + "/content", "item %d: %r vs %r" % (i, _brief([x]), _brief([y]))
            return key, "%r vs %r" % (a[key], b[key])
    return None


def _brief(lst):
    out = []
    for x in lst[:4]:
        if len(x) == 5:
            out.append((x[0], x[1], x[4][:30]))
        else:
            out.append((x[0], x[1], x[2][:40]))
    return out


def run_case_full(case):
    stream = case["stream"]
    adj = dict(case.get("adj") or {})
    cuts = sorted(set(c for c in (case.get("cuts") or []) if isinstance(c, int) and 0 < c < len(stream)))
    ref = reference(stream, C.dumps(adj), adj)
    segs = [s2b(x) for x in G.split_at(stream, cuts)]
    got = summarize(observe(segs, adj=adj, eof=True))
    fails = []
    d = diff(ref, got)
    if d:
        sig = d[0]
        if sig == "responses/status/400~413" and "max_request_body_size" in adj:
            its = REQ.parse_stream(s2b(stream))
            # a message is chunked and its chunk syntax is malformed, or of a form the reference leaves open (e.g. whitespace inside
            # a chunk extension) and the server refuses: in both cases the receiver has flagged an error when the size check runs
            if any(i.framing == "chunked" and (i.verdict == REQ.MUST_REFUSE or any(n.startswith("chunk") for n in i.notes)) for i in its):
                sig += "/malformed-chunked-body-reaching-body-limit"
        fails.append({"sig": "C02/" + sig, "detail": "one piece vs cuts %r: %s" % (cuts[:12], d[1])})
    # classification
    labels = set()
    nontrivial = False
    if cuts:
        items = REQ.parse_stream(s2b(stream))
        bounds = set([0, len(stream)])
        for it in items:
            bounds.add(it.start)
            bounds.add(it.msg_start)
            if it.end is not None:
                bounds.add(it.end)
        for c in cuts:
            if c in bounds:
                labels.add("cut-at-boundary")
                continue
            nontrivial = True
            if stream[c - 1] == "\r" and stream[c] == "\n":
                labels.add("cut-in-crlf")
            where = "tail"
            for it in items:
                hi = it.end if it.end is not None else len(stream)
                if it.start <= c < hi:
                    if it.head_end is None or c < it.head_end:
                        where = "head"
                    else:
                        where = "body-" + it.framing
                    break
            labels.add("cut-in-" + where)
        labels.add("ncuts:%s" % (len(cuts) if len(cuts) < 4 else "4+"))
    return fails, nontrivial, labels


def run_case(case):
    if not isinstance(case.get("stream"), str):
        raise C.CaseInvalid("stream")
    for k_, lo in (("recv_bytes", 1), ("max_request_body_size", 1), ("max_request_header_size", 1), ("inbuf_overflow", 1)):
        v_ = (case.get("adj") or {}).get(k_)
        if v_ is not None and (not isinstance(v_, int) or v_ < lo):
            raise C.CaseInvalid(k_)
    try:
        s2b(case["stream"])
    except UnicodeEncodeError:
        raise C.CaseInvalid("latin-1")
    return run_case_full(case)[0]


# ---------------------------------------------------------------- fixed stream corpus
def corpus_streams():
    out = []
    for b in G.base_sentences():
        out.append((G.render(b) + G.FOLLOWER, {}))
    out += [
        ("POST /e HTTP/1.1\r\nExpect: 100-continue\r\nContent-Length: 5\r\n\r\nhello" + G.FOLLOWER, {}),
        ("GET /a HTTP/1.1\r\n\r\nPOST /e HTTP/1.1\r\nExpect: 100-continue\r\nContent-Length: 3\r\n\r\nabc", {}),
        ("\r\n\r\nGET /blank HTTP/1.1\r\n\r\n\r\nGET /b2 HTTP/1.0\r\n\r\n", {}),
        ("POST /c HTTP/1.1\r\nTransfer-Encoding: chunked\r\n\r\n3\r\nabc\rX0\r\n\r\n" + G.FOLLOWER, {}),
        ("POST /c HTTP/1.1\r\nTransfer-Encoding: chunked\r\n\r\n3;x\x01\r\nabc\r\n0\r\n\r\n" + G.FOLLOWER, {}),
        ("POST /c HTTP/1.1\r\nTransfer-Encoding: chunked\r\n\r\nZ\r\nabc\r\n0\r\n\r\n", {}),
        ("POST /c HTTP/1.1\r\nTransfer-Encoding: chunked\r\n\r\n3\r\nabc\r\n0\r\nBad trailer\r\n\r\n" + G.FOLLOWER, {}),
        ("POST /c HTTP/1.1\r\nTransfer-Encoding: chunked\r\n\r\n3\r\nabc\r\n0\r\nA: b\r\nC: d\r\n\r\n" + G.FOLLOWER, {}),
        ("POST /big HTTP/1.1\r\nContent-Length: 40\r\n\r\n" + "x" * 40 + G.FOLLOWER, {"max_request_body_size": 30}),
        ("POST /big HTTP/1.1\r\nTransfer-Encoding: chunked\r\n\r\n10\r\n" + "y" * 16 + "\r\n10\r\n" + "z" * 16 + "\r\n0\r\n\r\n" + G.FOLLOWER,
         {"max_request_body_size": 30}),
        ("POST /big HTTP/1.1\r\nTransfer-Encoding: chunked\r\n\r\n10\r\n" + "y" * 16 + "\r\nZZ\r\n" + "z" * 16 + "\r\n0\r\n\r\n",
         {"max_request_body_size": 30}),
        ("GET /long HTTP/1.1\r\nX-Pad: " + "p" * 60 + "\r\nHost: h\r\n\r\n" + G.FOLLOWER, {"max_request_header_size": 64}),
        ("GET /fit HTTP/1.1\r\nX-Pad: " + "p" * 20 + "\r\n\r\n" + G.FOLLOWER, {"max_request_header_size": 64}),
        ("GET /x HTTP/1.1\r\nContent-Length: 5\r\nContent-Length: 5\r\n\r\nhello" + G.FOLLOWER, {}),
        ("GET /x HTTP/1.1\r\nTransfer-Encoding: gzip, chunked\r\n\r\n0\r\n\r\n" + G.FOLLOWER, {}),
        ("GET /x HTTP/1.1\r\nFoo : bar\r\n\r\n" + G.FOLLOWER, {}),
        ("GET /x HTTP/1.1\r\nFoo: bar\nBaz: q\r\n\r\n" + G.FOLLOWER, {}),
        ("GET /1 HTTP/1.1\r\n\r\nGET /2 HTTP/1.1\r\n\r\nGET /3 HTTP/1.1\r\nConnection: close\r\n\r\nGET /4 HTTP/1.1\r\n\r\n", {"channel_request_lookahead": 2}),
        ("get / HTTP/1.1\r\n\r\n" + G.FOLLOWER, {}),
        # long tokens: chunk extensions / trailers / header values / targets beyond any plausible internal limit
        ("POST /c HTTP/1.1\r\nTransfer-Encoding: chunked\r\n\r\n3;ext=" + "e" * 1100 + "\r\nabc\r\n0\r\n\r\n" + G.FOLLOWER, {}),
        ("POST /c HTTP/1.1\r\nTransfer-Encoding: chunked\r\n\r\n3;q=\"" + "q" * 2100 + "\"\r\nabc\r\n0;z=" + "z" * 1030 + "\r\n\r\n" + G.FOLLOWER, {}),
        ("POST /c HTTP/1.1\r\nTransfer-Encoding: chunked\r\n\r\n" + "0" * 1500 + "3\r\nabc\r\n0\r\n\r\n" + G.FOLLOWER, {}),
        ("POST /c HTTP/1.1\r\nTransfer-Encoding: chunked\r\n\r\n3\r\nabc\r\n0\r\nX-Long: " + "t" * 3000 + "\r\nB: c\r\n\r\n" + G.FOLLOWER, {}),
        ("GET /" + "u" * 2500 + " HTTP/1.1\r\nX-Long: " + "v" * 9000 + "\r\n\r\n" + G.FOLLOWER, {}),
        ("GET http://[::1/x HTTP/1.1\r\n\r\n" + G.FOLLOWER, {}),
    ]
    return out


TINY = ["A / HTTP/1.1\r\n\r\n", "A /\r\n\r\nB /\r\n\r\n", "\r\n\r\nA /\r\n\r\n", "a /\r\n\r\nB /\r\n\r\n", "A /\r\nb\r\n\r\nB /\r\n\r\n",
        "A /\r\nb:\n\r\n\r\n"]

CHUNK_BODIES = ["1\r\na\r\n0\r\n\r\n", "2;a=b\r\nxy\r\n0\r\nA: b\r\n\r\n", "1\r\na\rX0\r\n\r\n", "1\r\na\r\n0\r\nBad\r\n\r\n",
                "01\r\nZ\r\n00;q=\"r\"\r\n\r\n", "1\r\na\r\n\r\n0\r\n\r\n", "g\r\na\r\n0\r\n\r\n"]
CHUNK_HEAD = "POST /c HTTP/1.1\r\nTransfer-Encoding: chunked\r\n\r\n"


def parser_level(head, body, cuts):
    """drive the real HTTPRequestParser the way the channel does; outcome for comparison"""
    from waitress.adjustments import Adjustments
    from waitress.parser import HTTPRequestParser

    global _ADJ
    try:
        adj = _ADJ
    except NameError:
        adj = _ADJ = Adjustments()
    p = HTTPRequestParser(adj)
    data = s2b(head)
    n = p.received(data)
    total = n
    segs = [s2b(x) for x in G.split_at(body, cuts)]
    left = b""
    for i, seg in enumerate(segs):
        d = seg
        while d and not p.completed:
            k = p.received(d)
            total += k
            d = d[k:]
        if p.completed:
            left = d + b"".join(segs[i + 1:])
            break
    err = p.error.code if p.error else None
    bodyv = None
    if p.completed and not p.error and p.body_rcv is not None:
        f = p.body_rcv.getfile()
        f.seek(0)
        bodyv = f.read()
    p.close()
    # after a refusal the connection is closed: how much was consumed is not an outcome (C06 owns that)
    return (p.completed, err, bodyv, None if err else len(left), p.headers.get("CONTENT_LENGTH"))


def fuzz_jobs(tier, seed, tag):
    # coverage-guided campaigns (atheris): seeded corpus + dictionary, and an empty-corpus one
    if tier == "quick":
        return [{"kind": "fuzz", "runs": 4000, "seed": derive_seed(seed, tag, "fz", 0)}]
    return [{"kind": "fuzz", "runs": 300000, "seed": derive_seed(seed, tag, "fz", i), "seed_corpus": i % 4 != 3, "max_total_time": 600} for i in range(16)]


def jobs(tier, seed):
    js = []
    streams = corpus_streams()
    for i in range(len(streams)):
        js.append({"kind": "fixed", "index": i, "pairs_max_len": 90 if tier == "quick" else 200})
    for i in range(len(TINY)):
        js.append({"kind": "tiny", "index": i})
    for i in range(len(CHUNK_BODIES)):
        js.append({"kind": "chunk_exh", "index": i, "max_n": 16 if tier == "quick" else 21})
    for sh in range(4):
        js.append({"kind": "threshold", "shard": sh, "nshards": 4})
    n = 700 if tier == "quick" else 30000
    for sh in range(16):
        js.append({"kind": "hyp", "n": n, "seed": derive_seed(seed, "c02", sh)})
    js += fuzz_jobs(tier, seed, "c02")
    return js


ROUND_LENGTHS = [255, 256, 257, 1023, 1024, 1025, 2048, 4095, 4096, 4097, 8191, 8192, 8193, 16384, 65535, 65536, 65537]


def threshold_cases():
    """control lines / tokens whose length sits at a secondary (power-of-two) threshold, cut around their end and in the middle; bodies
    beyond the 8 KiB string stage of the input buffer with an overflow threshold below one read, cut shortly behind the header block"""
    for L in ROUND_LENGTHS:
        variants = [
            (CHUNK_HEAD, "3;x=" + "e" * (L - 4), "\r\nabc\r\n0\r\n\r\n" + G.FOLLOWER),                                  # chunk-size line of exactly L bytes
            (CHUNK_HEAD + "3\r\nabc\r\n", "0;x=" + "e" * (L - 4), "\r\n\r\n" + G.FOLLOWER),                             # last-chunk line
            (CHUNK_HEAD + "3\r\nabc\r\n0\r\n", "X-T: " + "t" * (L - 5), "\r\n\r\n" + G.FOLLOWER),                     # trailer line
            ("GET /h HTTP/1.1\r\n", "X-H: " + "h" * (L - 5), "\r\n\r\n" + G.FOLLOWER),                                   # header line
            ("", "GET /" + "u" * (L - 14) + " HTTP/1.1", "\r\n\r\n" + G.FOLLOWER),                                        # request line
        ]
        for pre, line, post in variants:
            if len(line) != L:
                continue
            s_ = pre + line + post
            a, b = len(pre), len(pre) + L
            adj = {"max_request_header_size": 300000} if L > 60000 else {}
            yield {"stream": s_, "cuts": [], "adj": adj}
            for d in (-2, -1, 0, 1, 2, 3):
                yield {"stream": s_, "cuts": [b + d], "adj": adj}
                yield {"stream": s_, "cuts": [a + L // 2, b + d], "adj": adj}
            yield {"stream": s_, "cuts": [a + L // 2], "adj": adj}
    for n in (8200, 12000, 20000):
        body = ("0123456789abcdef" * (n // 16 + 1))[:n]
        for stream_, hlen in (("POST /b HTTP/1.1\r\nContent-Length: %d\r\n\r\n" % n + body + G.FOLLOWER, None),
                              (CHUNK_HEAD + "%x\r\n" % n + body + "\r\n0\r\n\r\n" + G.FOLLOWER, None)):
            he = stream_.index("\r\n\r\n") + 4
            for ov in (100, 4096, 8192, 9000):
                yield {"stream": stream_, "cuts": [], "adj": {"inbuf_overflow": ov}}
                for d in (0, 1, 10, 100, 1000, 4095, 4096, 8191):
                    yield {"stream": stream_, "cuts": [he + d], "adj": {"inbuf_overflow": ov}}


def case_strategy():
    @st.composite
    def build(draw):
        s = draw(G.stream(max_msgs=3, p_mut=0.4, allow_expect=True, small=True))
        if len(s) > 1200:
            s = s[:1200]
        adj = draw(st.sampled_from([{}, {}, {}, {"max_request_header_size": 128}, {"max_request_body_size": 24},
                                    {"channel_request_lookahead": 1}, {"inbuf_overflow": 8}]))
        cuts = draw(G.cuts(s))
        return {"stream": s, "cuts": cuts, "adj": adj}

    return build()


def run_job(job, col):
    if job["kind"] == "fuzz":
        from ..fuzz import run_fuzz_job
        return run_fuzz_job(job, col, PID)
    def one(case):
        fs, nt, labels = run_case_full(case)
        col.record(case, fs, nontrivial=nt, labels=labels)

    if job["kind"] == "fixed":
        s, adj = corpus_streams()[job["index"]]
        n = len(s)
        one({"stream": s, "cuts": [], "adj": adj})
        one({"stream": s, "cuts": list(range(1, n)), "adj": adj})
        for c in range(1, n):
            one({"stream": s, "cuts": [c], "adj": adj})
        if n <= job["pairs_max_len"]:
            for a in range(1, n):
                for b in range(a + 1, n):
                    one({"stream": s, "cuts": [a, b], "adj": adj})
            col.exhaustive("all single cuts and all pairs of cuts of the fixed corpus streams <= %d bytes" % job["pairs_max_len"])
        else:
            io = G.interesting_offsets(s)
            if len(io) > 60:
                io = io[:30] + io[-30:]
            for a, b in itertools.combinations(io, 2):
                one({"stream": s, "cuts": [a, b], "adj": adj})
            col.exhaustive("all single cuts of every fixed corpus stream; all pairs of CR/LF-adjacent cuts")
    elif job["kind"] == "threshold":
        for i, c in enumerate(threshold_cases()):
            if i % job["nshards"] == job["shard"]:
                one(c)
    elif job["kind"] == "tiny":
        s = TINY[job["index"]]
        n = len(s)
        for mask in range(1 << (n - 1)):
            one({"stream": s, "cuts": [i + 1 for i in range(n - 1) if mask >> i & 1], "adj": {}})
        col.exhaustive("all 2^(n-1) segmentations of tiny streams (n <= 16) through the full stack")
    elif job["kind"] == "chunk_exh":
        body = CHUNK_BODIES[job["index"]]
        n = min(len(body), job["max_n"] + 1)
        ref = parser_level(CHUNK_HEAD, body, [])
        bad = 0
        nmask = 1 << (n - 1)
        for mask in range(nmask):
            cuts = [i + 1 for i in range(n - 1) if mask >> i & 1]
            got = parser_level(CHUNK_HEAD, body, cuts)
            if got != ref:
                bad += 1
                col.fail({"stream": CHUNK_HEAD + body, "cuts": [len(CHUNK_HEAD) + c for c in cuts], "adj": {}},
                         "C02/parser-level", "chunked body %r cuts %r: %r vs one piece %r" % (body, cuts, got, ref))
        col.bulk(nmask, nmask - 1, {"parser-level-chunked": nmask},
                 sample={"stream": CHUNK_HEAD + body, "cuts": "all 2^%d subsets of body offsets" % (n - 1), "adj": {}})
        col.exhaustive("all 2^(n-1) segmentations of %d chunked bodies (first %d bytes) at parser level" % (len(CHUNK_BODIES), job["max_n"] + 1))
    elif job["kind"] == "hyp":
        hyp_run(case_strategy(), one, job["n"], job["seed"])
