"""C16 - Trusted proxy headers: only trusted kinds, only trusted hops, never a crash.

Generated hop lists (grammar + degenerate elements) for the six proxy headers are run through the
real middleware (and end-to-end through the server) for a trusted peer: totality, metamorphic
non-interference of untrusted kinds / untrusted hops, an independent model of the documented hop
selection rule, and a table of the malformed classes that must give 400.
"""
from hypothesis import strategies as st

from .. import case as C
from ..case import s2b
from ..gen import proxy as P
from ..runner import derive_seed, hyp_run

PID = "C16"
LEVEL = "exploration"
TECHNIQUE = ("property testing of the proxy-header middleware for a trusted peer: generated hop lists incl. degenerate "
             "elements; totality, metamorphic non-interference (untrusted kinds / hops left of the trusted suffix), "
             "reference model of the hop-selection rule, enumerated malformed-class table => 400; sample end-to-end; "
             "coverage-guided atheris campaign over arbitrary field-value bytes with the same oracle inside the target")
RULE = ("case = (values of Forwarded / X-Forwarded-{For,Host,Proto,Port,By} as hop lists of length 0..5 from a grammar "
        "(IPv4, bracketed/bare IPv6, ports, quoting) with degenerate elements, trusted_proxy_count 1..4, an allowed "
        "subset of trusted_proxy_headers, clear_untrusted on/off); non-trivial = a list longer than the count, a "
        "degenerate element inside the trusted suffix, or an untrusted kind present; distinct by case hash")
ASSUMPTIONS = [
    "the hop-selection model is asserted only on grammar-built (well-formed) lists; where the statement is silent "
    "(entirely empty header value, elements lacking the field, ports and HTTP_HOST composition) no outcome is demanded",
    "a malformed element outside the trusted suffix / in an untrusted kind may be refused or ignored",
]
META = ("REMOTE_ADDR", "REMOTE_HOST", "REMOTE_PORT", "SERVER_NAME", "SERVER_PORT", "HTTP_HOST", "wsgi.url_scheme")
PEER = "10.9.8.7"
HANG_S = 20


class _Log:
    def warning(self, *a, **k):
        pass

    info = error = debug = exception = warning


def base_env(peer=PEER):
    return {"REMOTE_ADDR": peer, "REMOTE_HOST": peer, "REMOTE_PORT": "5555", "SERVER_NAME": "origin.example",
            "SERVER_PORT": "8080", "HTTP_HOST": "origin.example:8080", "wsgi.url_scheme": "http", "REQUEST_METHOD": "GET",
            "PATH_INFO": "/", "SCRIPT_NAME": "", "QUERY_STRING": "", "SERVER_PROTOCOL": "HTTP/1.1", "HTTP_X_OTHER": "keep"}


def run_mw(hdrs, tph, count, clear=True, peer=PEER, trusted=PEER):
    """hdrs: {kind: value}. returns (status3 or None, env or None, exception-repr or None)"""
    from waitress.proxy_headers import proxy_headers_middleware
    seen = {}

    def app(environ, start_response):
        seen["env"] = dict(environ)
        start_response("200 OK", [])
        return [b"ok"]

    mw = proxy_headers_middleware(app, trusted_proxy=trusted, trusted_proxy_count=count, trusted_proxy_headers=set(tph),
                                  clear_untrusted=clear, log_untrusted=False, logger=_Log())
    env = base_env(peer)
    for k, v in hdrs.items():
        env[P.ENV[k]] = v
    status = []

    def sr(s, h, exc_info=None):
        status.append(s)

    try:
        body = b"".join(mw(env, sr))
    except Exception as e:
        import traceback
        tb = traceback.extract_tb(e.__traceback__)
        where = tb[-1].name if tb else "?"
        return None, None, "%s@%s" % (type(e).__name__, where)
    return (status[0][:3] if status else None), seen.get("env"), None


def unq(t):
    return t[1:-1] if len(t) >= 2 and t[0] == '"' and t[-1] == '"' else t


HEXC = set("0123456789abcdefABCDEF:")


def parse_addr(text):
    """well-formed address element -> {text, addr, port} or {text, bad}"""
    t = unq(text.strip())
    out = {"text": text.strip()}
    def v4(x):
        p = x.split(".")
        return len(p) == 4 and all(q.isdigit() and len(q) <= 3 for q in p)
    def v6(x):
        return x.count(":") >= 2 and all(c in HEXC for c in x) and len(x) >= 2
    out["form"] = "other"
    if t.startswith("[") and "]:" in t:
        out["form"] = "v6-bracket-port"
    elif v6(t):
        out["form"] = "v6-bare"
    if v4(t):
        out.update(addr=t, port=None)
    elif ":" in t and v4(t.rsplit(":", 1)[0]) and t.rsplit(":", 1)[1].isdigit():
        out.update(addr=t.rsplit(":", 1)[0], port=t.rsplit(":", 1)[1])
    elif t.startswith("[") and t.endswith("]") and v6(t[1:-1]):
        out.update(addr=t[1:-1], port=None)
    elif t.startswith("[") and "]:" in t and v6(t[1:t.index("]:")]) and t[t.index("]:") + 2:].isdigit():
        out.update(addr=t[1:t.index("]:")], port=t[t.index("]:") + 2:])
    elif v6(t):
        out.update(addr=t, port=None)
    else:
        out["bad"] = True
    if text.strip() != unq(text.strip()) and ("\"" in t or "\\" in t):
        out["bad"] = True
    return out


def parse_host(text):
    t = unq(text.strip())
    out = {"text": text.strip()}
    import re as _re
    m = _re.fullmatch(r"([A-Za-z0-9.-]+)(?::([0-9]+))?", t)
    if m and m.group(1).strip("."):
        out.update(host=m.group(1), port=m.group(2))
    else:
        out["bad"] = True
    return out


def parse_fwd_elem(text):
    e = {"text": text.strip(), "for": None, "host": None, "proto": None, "bad": False}
    for pair in text.strip().split(";"):
        if pair == "":
            continue
        if "=" not in pair:
            e["bad"] = True
            continue
        k, v = pair.split("=", 1)
        kl = k.lower()
        if k != k.strip() or v != v.strip() or (v.startswith("\"") != v.endswith("\"")) or (len(v) == 1 and v == "\""):
            e["bad"] = True
            continue
        if kl == "for":
            a = parse_addr(v)
            if a.get("bad") or e["for"] or a.get("form") == "v6-bare":
                e["bad"] = True   # RFC 7239: an IPv6 address in Forwarded is bracketed (and quoted)
            e["for"] = a
        elif kl == "host":
            h = parse_host(v)
            if h.get("bad") or e["host"]:
                e["bad"] = True
            e["host"] = h
        elif kl == "proto":
            if unq(v).lower() not in ("http", "https") or e["proto"]:
                e["bad"] = True
            e["proto"] = unq(v).lower()
        elif kl == "by":
            if "\"" in unq(v):
                e["bad"] = True
        else:
            e["bad"] = True
    return e


def derive_struct(hdrs):
    st_ = {}
    if hdrs.get("x-forwarded-for", "") != "":
        st_["x-forwarded-for"] = [parse_addr(x) for x in hdrs["x-forwarded-for"].split(",")]
    if hdrs.get("x-forwarded-host", "") != "":
        st_["x-forwarded-host"] = [parse_host(x) for x in hdrs["x-forwarded-host"].split(",")]
    if hdrs.get("forwarded", "") != "":
        st_["forwarded"] = [parse_fwd_elem(x) for x in hdrs["forwarded"].split(",")]
    return st_


def badq(v):
    # clear-cut unbalanced quoting only; "surrounding whitespace" is HTTP's OWS (SP / HTAB) for a field value while the code trims
    # with str.strip() (which also removes FF, FS..US, NEL, NBSP): the demand is made only where both readings agree
    def one(v):
        return "\\" not in v and ((v.startswith("\"") != v.endswith("\"")) or v == "\"")
    return one(v.strip(" \t")) and one(v.strip())


def must400(hdrs, tph, count):
    """-> class name when the statement says this must be refused (malformed thing in a trusted kind, in the
    trusted suffix / effective position), else None"""
    if any("\\" in hdrs.get(k, "") for k in tph):
        return None   # quoted-pair subtleties ("\\h" is "h" inside a quoted string): no demand
    if "x-forwarded-proto" in tph and hdrs.get("x-forwarded-proto"):
        v = hdrs["x-forwarded-proto"]
        if badq(v):
            return "bad-quoting"
        if "," in unq(v):
            return "several-values"
        if unq(v) and unq(v).lower() not in ("http", "https"):
            return "unsupported-scheme"
    if "x-forwarded-port" in tph and hdrs.get("x-forwarded-port"):
        v = hdrs["x-forwarded-port"]
        if badq(v):
            return "bad-quoting"
        if "," in unq(v):
            return "several-values"
    if "x-forwarded-for" in tph and hdrs.get("x-forwarded-for"):
        for e in hdrs["x-forwarded-for"].split(",")[-count:]:
            if badq(e):
                return "bad-quoting"
    if "x-forwarded-host" in tph and hdrs.get("x-forwarded-host"):
        suf = hdrs["x-forwarded-host"].split(",")[-count:]
        for e in suf:
            if badq(e):
                return "bad-quoting"
        h = unq(suf[0].strip())
        if ":" in h and not h.endswith("]") and h.rsplit(":", 1)[0].strip() == "":
            return "empty-host"
    if "forwarded" in tph and hdrs.get("forwarded"):
        suf = hdrs["forwarded"].split(",")[-count:]
        eff_host = eff_proto = None
        for el in suf:
            for pair in el.strip().split(";"):
                if pair == "":
                    continue
                if "=" not in pair:
                    return "pair-without-equals"
                k, v = pair.split("=", 1)
                if k != k.strip() or v != v.strip():
                    return "padded-token"
                if k.lower() in ("for", "host", "proto", "by") and badq(v):
                    return "bad-quoting"
        for el in suf:
            keys = [pr.split("=", 1)[0].lower() for pr in el.strip().split(";") if "=" in pr]
            if len(keys) != len(set(keys)):
                return None   # a parameter repeated inside one element: which one counts is not stated
        for el in suf:
            for pair in el.strip().split(";"):
                if "=" in pair:
                    k, v = pair.split("=", 1)
                    if k.lower() == "host" and eff_host is None and unq(v):
                        eff_host = unq(v)
                    if k.lower() == "proto" and eff_proto is None and unq(v):
                        eff_proto = unq(v)
        if eff_proto is not None and eff_proto.lower() not in ("http", "https"):
            return "unsupported-scheme"
        if eff_host is not None and ":" in eff_host and not eff_host.endswith("]") and eff_host.rsplit(":", 1)[0].strip() == "":
            return "empty-host"
    return None


def all_wellformed(hdrs, tph):
    """every trusted kind that is present is well-formed by the grammar of vf.gen.proxy -> must be accepted"""
    st_ = derive_struct(hdrs)
    if any("\\" in v for v in hdrs.values()):
        return False   # quoted-pair subtleties: no demand
    if any((ord(ch) < 0x20 and ch != "\t") or ord(ch) == 0x7f for v in hdrs.values() for ch in v):
        return False   # control characters are not qdtext / token characters: such a value is not "well-formed", no demand
    for k in tph:
        v = hdrs.get(k)
        if v is None:
            continue
        if k in ("x-forwarded-for", "x-forwarded-host", "forwarded"):
            if v == "" or any(e.get("bad") for e in st_.get(k, [])):
                return False
            if k == "x-forwarded-for" and any(e.get("form") == "v6-bracket-port" for e in st_[k]):
                return False
        elif k == "x-forwarded-proto":
            if unq(v).lower() not in ("http", "https") or badq(v):
                return False
        elif k == "x-forwarded-port":
            if not unq(v).isdigit() or badq(v):
                return False
        elif k == "x-forwarded-by":
            pass
    return True


def model(case, env):
    """expected values of the variables the statement fixes (None = no demand)"""
    exp = {}
    hdrs, tph, count = case["hdrs"], case["tph"], case["count"]
    struct = derive_struct(hdrs)
    if "x-forwarded-for" in tph and "x-forwarded-for" in hdrs:
        el = struct.get("x-forwarded-for")
        if el and all(not e.get("bad") for e in el):
            k = min(count, len(el))
            c = el[len(el) - k]
            if c.get("form") == "v6-bracket-port":
                # the code documents that it assumes no port on an IPv6 hop of X-Forwarded-For: only *which* hop is judged
                exp["_contains:REMOTE_ADDR"] = c["addr"]
            else:
                exp["REMOTE_ADDR"] = c["addr"]
                exp["REMOTE_HOST"] = c["addr"]
                if c.get("port"):
                    exp["REMOTE_PORT"] = c["port"]
            exp["_suffix:x-forwarded-for"] = [e["text"] for e in el[len(el) - k:]]
    if "x-forwarded-host" in tph and "x-forwarded-host" in hdrs:
        el = struct.get("x-forwarded-host")
        if el and all(not e.get("bad") for e in el):
            k = min(count, len(el))
            exp["SERVER_NAME"] = el[len(el) - k]["host"]
            exp["_suffix:x-forwarded-host"] = [e["text"] for e in el[len(el) - k:]]
    if "x-forwarded-proto" in tph and hdrs.get("x-forwarded-proto", "").lower() in ("http", "https"):
        exp["wsgi.url_scheme"] = hdrs["x-forwarded-proto"].lower()
    if "forwarded" in tph and "forwarded" in hdrs:
        el = struct.get("forwarded")
        if el and all(not e.get("bad") for e in el):
            k = min(count, len(el))
            suf = el[len(el) - k:]
            for e in suf:
                if e.get("for"):
                    exp["REMOTE_ADDR"] = exp["REMOTE_HOST"] = e["for"]["addr"]
                    if e["for"].get("port"):
                        exp["REMOTE_PORT"] = e["for"]["port"]
                    break
            for e in suf:
                if e.get("host"):
                    exp["SERVER_NAME"] = e["host"]["host"]
                    break
            for e in suf:
                if e.get("proto"):
                    exp["wsgi.url_scheme"] = e["proto"]
                    break
            exp["_suffix:forwarded"] = [e["text"] for e in suf]
    return exp


def run_case_full(case):
    hdrs = case.get("hdrs")
    tph = case.get("tph")
    count = case.get("count")
    if not isinstance(hdrs, dict) or not tph or not isinstance(count, int) or not (1 <= count <= 6):
        raise C.CaseInvalid("shape")
    if any(k not in P.KINDS for k in list(hdrs) + list(tph)) or ("forwarded" in tph and len(tph) > 1):
        raise C.CaseInvalid("kinds")
    if any(not isinstance(v, str) for v in hdrs.values()):
        raise C.CaseInvalid("values")
    clear = case.get("clear", True)
    fails = []
    labels = set()

    def fail(sig, detail):
        fails.append({"sig": "C16/" + sig, "detail": detail})

    st3, env, exc = run_mw(hdrs, tph, count, clear)
    # (a) totality
    if exc:
        fail("raises/" + exc, "unhandled %s for headers %r (trusted %r, count %d)" % (exc, hdrs, tph, count))
        return fails, True, labels
    if st3 not in ("200", "400"):
        fail("status/" + str(st3), "status %r" % st3)
        return fails, True, labels
    labels.add("status:" + st3)
    # (d) the malformed classes the statement names => 400
    m400 = must400(hdrs, tph, count)
    if m400 and st3 != "400":
        fail("accepted-malformed/" + m400, "header that cannot be interpreted (%s) was accepted: %r (count %d) -> %r" % (
            m400, hdrs, count, {k: env.get(k) for k in META}))
    if m400:
        labels.add("must400:" + m400)
    if st3 == "400" and not m400 and all_wellformed(hdrs, tph):
        fail("wellformed-refused", "well-formed proxy headers were refused with 400: %r (trusted %r, count %d)" % (hdrs, tph, count))
    nontrivial = bool(m400)
    untrusted_present = [k for k in hdrs if k not in tph]
    if untrusted_present:
        labels.add("untrusted-kind-present")
        nontrivial = True
    if st3 == "200":
        # untrusted kinds are stripped / have no effect
        for k in untrusted_present:
            if clear and P.ENV[k] in env:
                fail("untrusted-kind-not-stripped/" + k, "%s reached the application although %s is not trusted" % (P.ENV[k], k))
        # (c) model
        exp = model(case, env)
        for k, v in exp.items():
            if k.startswith("_suffix:"):
                kind = k.split(":", 1)[1]
                got = env.get(P.ENV[kind])
                if got is None:
                    fail("trusted-header-missing/" + kind, "%s missing from the environ" % P.ENV[kind])
                else:
                    got_el = [x.strip() for x in got.split(",")]
                    if got_el != [x.strip() for x in v]:
                        fail("untrusted-hops-reach-app/" + kind, "%s = %r, expected only the trusted suffix %r" % (P.ENV[kind], got, v))
                labels.add("model-checked")
            elif k.startswith("_contains:"):
                if v not in (env.get(k.split(":", 1)[1]) or ""):
                    fail("hop-selection/" + k.split(":", 1)[1], "%s = %r does not come from the selected hop %r" % (k, env.get(k.split(":", 1)[1]), v))
            elif "forwarded" in tph and isinstance(v, str) and isinstance(env.get(k), str) and env.get(k).lower() == v.lower():
                pass   # Forwarded pairs are lower-cased by the server: host names and hex addresses are case-insensitive
            elif env.get(k) != v:
                fail("hop-selection/" + k, "%s = %r, model (count %d) says %r; headers %r" % (k, env.get(k), count, v, hdrs))
        # untouched metadata when no trusted kind can set it
        base = base_env()
        if "forwarded" not in tph:
            if "x-forwarded-for" not in tph:
                for k in ("REMOTE_ADDR", "REMOTE_HOST", "REMOTE_PORT"):
                    if env.get(k) != base[k]:
                        fail("untrusted-kind-effect/" + k, "%s changed to %r although x-forwarded-for is not trusted" % (k, env.get(k)))
            if "x-forwarded-host" not in tph:
                if env.get("SERVER_NAME") != base["SERVER_NAME"]:
                    fail("untrusted-kind-effect/SERVER_NAME", "SERVER_NAME changed to %r although x-forwarded-host is not trusted" % env.get("SERVER_NAME"))
            if "x-forwarded-proto" not in tph:
                if env.get("wsgi.url_scheme") != "http":
                    fail("untrusted-kind-effect/wsgi.url_scheme", "scheme changed although x-forwarded-proto is not trusted")
        else:
            pass
    if st3 == "200":
        # whatever was selected, the connection metadata handed to the application is never empty / never a third scheme
        for k in ("REMOTE_ADDR", "REMOTE_HOST", "SERVER_NAME", "HTTP_HOST", "SERVER_PORT"):
            if env.get(k, "x") == "":
                fail("empty-metadata/" + k, "%s is the empty string for headers %r (trusted %r, count %d): an element without an address / host cannot be interpreted" % (
                    k, hdrs, tph, count))
        if env.get("wsgi.url_scheme") not in ("http", "https"):
            fail("scheme-value", "wsgi.url_scheme = %r" % env.get("wsgi.url_scheme"))
        # (b) metamorphic: stating, in a trusted X-Forwarded-Proto, the scheme that is in effect anyway changes nothing (the port being
        # given explicitly, so that no default port is derived from the scheme)
        if "x-forwarded-proto" in tph and hdrs.get("x-forwarded-proto", "") == "" and "x-forwarded-port" in tph and hdrs.get("x-forwarded-port", "").isdigit() \
                and "forwarded" not in tph:
            labels.add("explicit-scheme-relation")
            h2 = dict(hdrs)
            h2["x-forwarded-proto"] = env["wsgi.url_scheme"]
            st2, env2, exc2 = run_mw(h2, tph, count, clear)
            e1 = {k: v for k, v in (env or {}).items() if k != P.ENV["x-forwarded-proto"]}
            e2 = {k: v for k, v in (env2 or {}).items() if k != P.ENV["x-forwarded-proto"]}
            if exc2 or st2 != st3 or e1 != e2:
                d = sorted(set(e1.items()) ^ set(e2.items()))[:4]
                fail("explicit-scheme-changes-outcome", "adding X-Forwarded-Proto: %s (the scheme already in effect) changed the outcome: %r -> %r %r; differences %r; headers %r" % (
                    env["wsgi.url_scheme"], st3, st2, exc2, d, hdrs))
    # (b) metamorphic: hops left of the trusted suffix do not matter
    struct = derive_struct(hdrs)
    for kind in ("x-forwarded-for", "x-forwarded-host", "forwarded"):
        el = struct.get(kind)
        if kind in tph and kind in hdrs and el and len(el) >= count and all(not e.get("bad") for e in el):
            labels.add("list>=count")
            nontrivial = True
            extra = {"x-forwarded-for": "198.18.0.99", "x-forwarded-host": "evil.example:1", "forwarded": "for=198.18.0.99;host=evil.example;proto=https"}[kind]
            h2 = dict(hdrs)
            h2[kind] = extra + ", " + hdrs[kind]
            st2, env2, exc2 = run_mw(h2, tph, count, clear)
            if exc2 or st2 != st3 or env2 != env:
                d = sorted(set((env or {}).items()) ^ set((env2 or {}).items()))[:4]
                fail("untrusted-hop-interferes/" + kind, "prepending an untrusted hop to %s changed the outcome: %r/%r -> %r/%r diff %r" % (
                    kind, st3, None, st2, exc2, d))
            if len(el) > count:
                # replacing the leftmost (untrusted) hop
                h3 = dict(hdrs)
                parts = hdrs[kind].split(",")
                parts[0] = extra
                h3[kind] = ",".join(parts)
                st4, env4, exc4 = run_mw(h3, tph, count, clear)
                if exc4 or st4 != st3 or env4 != env:
                    fail("untrusted-hop-interferes/" + kind, "replacing the leftmost untrusted hop of %s changed the outcome" % kind)
    # (b) metamorphic: the value of an untrusted kind does not matter
    for k in P.KINDS:
        if k not in tph and not ("forwarded" in tph and False):
            h2 = dict(hdrs)
            h2[k] = {"x-forwarded-for": "6.6.6.6", "x-forwarded-host": "evil.example", "x-forwarded-proto": "https",
                     "x-forwarded-port": "6666", "x-forwarded-by": "evil", "forwarded": "for=6.6.6.6;host=evil.example;proto=https"}[k]
            st2, env2, exc2 = run_mw(h2, tph, count, clear)
            e1 = dict(env or {})
            e2 = dict(env2 or {})
            if not clear:
                e1.pop(P.ENV[k], None)
                e2.pop(P.ENV[k], None)
            if exc2 or st2 != st3 or e1 != e2:
                fail("untrusted-kind-interferes/" + k, "changing untrusted %s changed the outcome (%r -> %r %r)" % (k, st3, st2, exc2))
            break
    if any(e.get("bad") for el in struct.values() for e in (el or [])):
        labels.add("degenerate-element")
        nontrivial = True
    return fails, nontrivial, labels


class _Hang(BaseException):   # not an Exception: the code under test catches Exception broadly and must not swallow the watchdog
    pass


def _alarm(_s, _f):
    raise _Hang()


def guarded(fn, case):
    """hang oracle: no header value keeps the proxy-header code busy for more than HANG_S seconds (typical case: well under a millisecond)"""
    import signal
    old = signal.signal(signal.SIGALRM, _alarm)
    signal.alarm(HANG_S)
    try:
        try:
            return fn(case)
        finally:
            signal.alarm(0)
            signal.signal(signal.SIGALRM, old)
    except _Hang:
        from .. import simnet
        simnet.CUR = None
        return ([{"sig": "C16/hang", "detail": "the proxy-header code was busy for more than %d s with headers %r" % (
            HANG_S, {k: v[:60] for k, v in (case.get("hdrs") or {}).items()})}], True, {"hang"})


def run_case(case):
    if case.get("e2e"):
        r = guarded(lambda c: (run_e2e(c), True, set()), case)
        return r[0]
    return guarded(run_case_full, case)[0]


# ---------------------------------------------------------------- generation
def must400_table():
    """the malformed classes the statement names, inside a trusted kind (and inside the trusted suffix)"""
    for count in (1, 2, 3):
        pre = ["", "192.0.2.1, ", "192.0.2.1, 198.51.100.7, "]
        for p in pre[:count]:
            for bad, cls in (("\"198.51.100.2", "bad-quoting"), ("198.51.100.2\"", "bad-quoting"), ("\"a\"b\"", "bad-quoting")):
                yield {"hdrs": {"x-forwarded-for": p + bad}, "tph": ["x-forwarded-for"], "count": count, "must400": cls}
        for bad, cls in (("\"example.com", "bad-quoting"), (":80", "empty-host"), (":", "empty-host"), ("\":8080\"", "empty-host")):
            yield {"hdrs": {"x-forwarded-host": bad}, "tph": ["x-forwarded-host"], "count": count, "must400": cls}
            yield {"hdrs": {"x-forwarded-host": "evil.example, " + bad}, "tph": ["x-forwarded-host"], "count": 1, "must400": cls}
        for bad, cls in (("ftp", "unsupported-scheme"), ("http,https", "several-values"), ("https, https", "several-values"),
                         ("\"https", "bad-quoting"), ("gopher", "unsupported-scheme")):
            yield {"hdrs": {"x-forwarded-proto": bad}, "tph": ["x-forwarded-proto"], "count": count, "must400": cls}
        for bad, cls in (("80,443", "several-values"), ("\"80", "bad-quoting")):
            yield {"hdrs": {"x-forwarded-port": bad}, "tph": ["x-forwarded-port"], "count": count, "must400": cls}
        for bad, cls in (("for", "pair-without-equals"), ("for=1.2.3.4;proto", "pair-without-equals"), ("for=1.2.3.4; proto=https", "padded-token"),
                         ("for =1.2.3.4", "padded-token"), ("for= 1.2.3.4", "padded-token"), ("for=1.2.3.4 ;proto=https", "padded-token"),
                         ("for=\"1.2.3.4", "bad-quoting"), ("host=\"example.com", "bad-quoting"), ("for=1.2.3.4;proto=ftp", "unsupported-scheme"),
                         ("for=1.2.3.4;host=:80", "empty-host"), ("host=\":80\"", "empty-host"), ("host=:", "empty-host")):
            yield {"hdrs": {"forwarded": bad}, "tph": ["forwarded"], "count": count, "must400": cls}
            yield {"hdrs": {"forwarded": "for=9.9.9.9, " + bad}, "tph": ["forwarded"], "count": 1, "must400": cls}


def degenerate_table():
    """every degenerate element, alone and as last hop, in every list kind x count 1..4 (totality)"""
    for d in P.DEGENERATE:
        for count in (1, 2, 4):
            for kind in ("x-forwarded-for", "x-forwarded-host", "x-forwarded-by", "x-forwarded-proto", "x-forwarded-port"):
                for v in (d, "192.0.2.1, " + d, d + ", 192.0.2.1", d + "," + d):
                    yield {"hdrs": {kind: v}, "tph": [kind], "count": count}
            for key in ("for", "host", "proto", "by"):
                for v in ("%s=%s" % (key, d), "%s=\"%s\"" % (key, d.replace("\"", "")), "for=1.2.3.4, %s=%s" % (key, d), "%s=%s;for=1.2.3.4" % (key, d)):
                    yield {"hdrs": {"forwarded": v}, "tph": ["forwarded"], "count": count}
    for b in P.FWD_PAIR_BAD:
        for count in (1, 2):
            for v in (b, "for=1.2.3.4;" + b, b + ";for=1.2.3.4", "for=8.8.8.8, " + b, b + ", for=8.8.8.8"):
                yield {"hdrs": {"forwarded": v}, "tph": ["forwarded"], "count": count}


def case_strategy():
    @st.composite
    def build(draw):
        tph = draw(st.sampled_from(P.allowed_subsets()))
        count = draw(st.integers(1, 4))
        deg = draw(st.integers(0, 2)) == 0
        hdrs, struct = {}, {}
        present = draw(st.lists(st.sampled_from(P.KINDS), min_size=1, max_size=6, unique=True))
        for k in set(present) | (set(tph) if draw(st.booleans()) else set()):
            if k == "x-forwarded-for":
                v = draw(P.xff_value(degenerate=deg))
                hdrs[k], struct[k] = v["value"], v["elems"]
            elif k == "x-forwarded-host":
                v = draw(P.xfh_value(degenerate=deg))
                hdrs[k], struct[k] = v["value"], v["elems"]
            elif k == "forwarded":
                v = draw(P.fwd_value(degenerate=deg))
                hdrs[k], struct[k] = v["value"], v["elems"]
            elif k == "x-forwarded-proto":
                hdrs[k] = draw(P.proto_values(deg))
            elif k == "x-forwarded-port":
                hdrs[k] = draw(P.port_values(deg))
            else:
                hdrs[k] = draw(st.sampled_from(["203.0.113.60", "_gw", "", "a, b"]))
        return {"hdrs": hdrs, "tph": tph, "count": count, "clear": draw(st.sampled_from([True, True, False]))}

    return build()


def e2e_cases():
    """end-to-end: the 400 must be on the wire (not a 500), the server stays alive"""
    for c in list(must400_table())[::3]:
        yield c
    for c in list(degenerate_table())[::7]:
        yield c


def run_e2e(case):
    from ..world import RecApp, observe
    fails = []
    hdrs = case["hdrs"]
    lines = "".join("%s: %s\r\n" % (P.HDR[k], v) for k, v in hdrs.items())
    try:
        raw = s2b("GET / HTTP/1.1\r\nHost: origin.example\r\n" + lines + "\r\n")
    except UnicodeEncodeError:
        raise C.CaseInvalid("latin-1")
    if any(ch in v for v in hdrs.values() for ch in "\r\n\x00") or any(v != v.strip(" \t") for v in hdrs.values()):
        raise C.CaseInvalid("not a field value")
    import warnings
    warnings.simplefilter("ignore")
    o = observe([raw], adj={"trusted_proxy": PEER, "trusted_proxy_count": case["count"], "trusted_proxy_headers": " ".join(case["tph"])},
                eof=False, addr=(PEER, 5555))
    if o.exception or o.handle_errors:
        fails.append({"sig": "C16/e2e-raises", "detail": "%r %r" % (o.exception, o.handle_errors[:1])})
        return fails
    finals = [r for r in o.responses if not r.interim]
    if len(finals) != 1 or finals[0].status not in (200, 400):
        fails.append({"sig": "C16/e2e-status/%s" % (finals[0].status if finals else None),
                      "detail": "end-to-end: %r -> statuses %r; logs %r" % (hdrs, [r.status for r in finals], o.logs[-2:])})
    elif must400(hdrs, case["tph"], case["count"]) and finals[0].status != 400:
        fails.append({"sig": "C16/accepted-malformed/" + must400(hdrs, case["tph"], case["count"]), "detail": "end-to-end: %r accepted" % hdrs})
    return fails


def jobs(tier, seed):
    js = [{"kind": "must400"}, {"kind": "degenerate", "shard": 0, "nshards": 2}, {"kind": "degenerate", "shard": 1, "nshards": 2}, {"kind": "e2e"}]
    n = 2500 if tier == "quick" else 60000
    for sh in range(16):
        js.append({"kind": "hyp", "n": n, "seed": derive_seed(seed, "c16", sh)})
    # E5: coverage-guided campaign over arbitrary field-value bytes, the same oracle inside the target
    if tier == "quick":
        js.append({"kind": "fuzz", "runs": 20000, "seed": derive_seed(seed, "c16", "fz", 0), "max_len": 200})
    else:
        js += [{"kind": "fuzz", "runs": 1000000, "seed": derive_seed(seed, "c16", "fz", i), "seed_corpus": i % 4 != 3, "max_len": 300, "max_total_time": 900}
               for i in range(16)]
    return js


def run_job(job, col):
    if job["kind"] == "fuzz":
        from ..fuzz import run_fuzz_job
        return run_fuzz_job(job, col, PID)

    hangs = [0]

    def one(case):
        if hangs[0] >= 3:
            col.labels["skipped-after-3-hangs-in-this-job"] += 1   # every hang costs HANG_S seconds; three are evidence enough
            return
        try:
            fs, nt, labels = guarded(run_case_full, case)
        except C.CaseInvalid:
            return
        if "hang" in labels:
            hangs[0] += 1
        col.record(case, fs, nontrivial=nt, labels=labels)

    k = job["kind"]
    if k == "must400":
        for c in must400_table():
            one(c)
        # values of the shape quote + (unit)*n + backslash-quote (starts and ends with a quote, not a quoted-string) and similar: the
        # quoted-string / token matchers must answer at once (hang oracle: 20 s per case, three hangs end the table)
        for unit in ("a", "a ", "ab", "\\a", "a,", "a;", "a="):
            for n in (30, 60):
                for v in ("\"" + unit * n + "\\\"", "\"" + unit * n + "\x01\"", "\"" + unit * n, unit * n + "\""):
                    for hd, tph in (({"x-forwarded-for": v}, ["x-forwarded-for"]), ({"x-forwarded-host": "h, " + v}, ["x-forwarded-host"]),
                                    ({"forwarded": "for=" + v}, ["forwarded"]), ({"forwarded": "for=1.2.3.4;host=" + v}, ["forwarded"])):
                        one({"hdrs": hd, "tph": tph, "count": 1})
        # host / port / scheme combinations (default and non-default ports, host with and without a port, scheme stated or not)
        for host in ("example.com", "example.com:80", "example.com:8443", "[2001:db8::1]", "[2001:db8::1]:443"):
            for port in (None, "80", "443", "8080"):
                for proto in (None, "http", "https"):
                    for tph in (["x-forwarded-host", "x-forwarded-port", "x-forwarded-proto"], ["x-forwarded-host", "x-forwarded-port"], ["x-forwarded-host", "x-forwarded-proto"]):
                        hd = {"x-forwarded-host": host}
                        if port:
                            hd["x-forwarded-port"] = port
                        if proto:
                            hd["x-forwarded-proto"] = proto
                        one({"hdrs": hd, "tph": tph, "count": 1})
        col.exhaustive("table of the malformed classes named by the statement x count 1..3 x position")
    elif k == "degenerate":
        for i, c in enumerate(degenerate_table()):
            if i % job["nshards"] == job["shard"]:
                one(c)
        col.exhaustive("every degenerate element alone / first / last in every kind and Forwarded field x count")
    elif k == "e2e":
        for c in e2e_cases():
            try:
                fs = guarded(lambda cc: (run_e2e(cc), True, set()), c)[0]
            except C.CaseInvalid:
                continue
            col.record(dict(c, e2e=True), fs, nontrivial=True, labels=("end-to-end",))
    else:
        hyp_run(case_strategy(), one, job["n"], job["seed"])
