"""C19 - Expect: 100-continue is answered correctly and the request is never lost.

Pipelines mixing expecting and non-expecting requests (with body, body-less, chunked, refused framing,
HTTP/1.0 with Expect); the client *waits* for the interim (or a final) response before sending an
expecting request's body.  Single-thread world for the input / segmentation dimension, scheduled world
for "interim sent by the worker vs by the I/O thread".  Oracle on the wire via the client-side parser.
"""
import sys

from hypothesis import strategies as st

from .. import case as C
from .. import schedprop as SP
from .. import schedules as S
from .. import simnet, simsched
from ..case import b2s, s2b
from ..gen import http as G
from ..refhttp import response as RESP
from ..runner import derive_seed, hyp_run
from ..schedworld import client_may_proceed, run_scenario
from ..world import RecApp

PID = "C19"
LEVEL = "exploration"
TECHNIQUE = ("property testing with a waiting client: generated pipelines of expecting / non-expecting requests x segmentations in "
             "the single-thread world, and x generated schedules (baton scheduler, real worker + I/O threads) for the hand-over of "
             "the interim response; interim placement / count / exactly-once execution judged from the wire by an independent "
             "client-side parser, liveness as 'no client still waiting at quiescence'")
RULE = ("case = (pipeline of 1..4 requests, each: HTTP version, Expect yes/no, body framing in {Content-Length, chunked, none, "
        "refused Content-Length, over the body limit}, client waits for 100-continue or not, cuts) x lookahead x {single-thread "
        "| schedule}; non-trivial = an expecting request that is not first on its connection, or is body-less / refused; "
        "distinct by case hash")
ASSUMPTIONS = ["a waiting client proceeds when it has seen an interim response after all earlier finals, or the final response of that request, or EOF",
               "request header fields are compared through two unique marker fields per request (they must reach exactly their own request)"]


def req_wire(k, rq):
    v = rq.get("version", "1.1")
    head = "%s /q%d HTTP/%s\r\nHost: h\r\nX-Conn: 0\r\nX-Req: %d\r\nX-Only-%d: mine%d\r\n" % (rq.get("method", "POST"), k, v, k, k, k)
    if rq.get("expect"):
        head += "Expect: 100-continue\r\n"
    if rq.get("conn"):
        head += "Connection: %s\r\n" % rq["conn"]
    fr = rq.get("framing", "none")
    body = rq.get("body", "")
    wire_body = ""
    if fr == "cl":
        head += "Content-Length: %d\r\n" % len(body)
        wire_body = body
    elif fr == "cl0":
        head += "Content-Length: 0\r\n"
    elif fr == "chunked":
        head += "Transfer-Encoding: chunked\r\n"
        wire_body = ("%x\r\n%s\r\n" % (len(body), body) if body else "") + "0\r\n\r\n"
    elif fr == "badcl":
        head += "Content-Length: 1x\r\n"
        wire_body = body
    elif fr == "toolarge":
        head += "Content-Length: 999999\r\n"
        wire_body = body
    return head + "\r\n", wire_body


def plan(case):
    """-> (segments, waits, info per request)"""
    segs, waits, info = [], [], []
    cur = ""
    curwait = None
    methods = [rq.get("method", "POST") for rq in case["reqs"]]
    for k, rq in enumerate(case["reqs"]):
        head, body = req_wire(k, rq)
        # only a client that asked (HTTP/1.1 + Expect) waits for the interim response
        waiting = bool(rq.get("wait")) and bool(body) and bool(rq.get("expect")) and rq.get("version", "1.1") == "1.1"
        info.append({"expecting": bool(rq.get("expect")) and rq.get("version", "1.1") == "1.1", "waiting": waiting,
                     "refused": rq.get("framing") in ("badcl", "toolarge"), "bodyless": not body,
                     "version": rq.get("version", "1.1"), "body": rq.get("body", "") if rq.get("framing") in ("cl", "chunked") else ""})
        cur += head
        if waiting:
            # a client may have sent the first bytes of the body along with the header block before it decides to wait
            hs = rq.get("head_start", 0)
            if hs and len(body) > hs and rq.get("framing") == "cl":
                cur += body[:hs]
                body = body[hs:]
            segs.append(cur)
            waits.append(curwait)
            cur = ""
            curwait = ["continue", k, methods]
        elif rq.get("split") and body:
            # an impatient client: the body follows in a separate segment, at a scheduler-chosen instant, without waiting
            segs.append(cur)
            waits.append(curwait)
            cur = ""
            curwait = None
            if rq.get("split") == 2 and len(body) > 1:
                segs.append(body[:len(body) // 2])
                waits.append(None)
                body = body[len(body) // 2:]
        cur += body
    if cur:
        segs.append(cur)
        waits.append(curwait)
    # extra cuts inside segments (arrival pattern)
    out_s, out_w = [], []
    cuts = sorted(set(case.get("cuts") or []))
    off = 0
    for sg, wt in zip(segs, waits):
        local = [c - off for c in cuts if off < c < off + len(sg)]
        prev = 0
        first = True
        for c in local + [len(sg)]:
            if c > prev:
                out_s.append(sg[prev:c])
                out_w.append(wt if first else None)
                first = False
            prev = c
        off += len(sg)
    return out_s, out_w, info


def judge(case, info, wire, closed, calls, still_waiting, extra_fail=None):
    fails = []

    def fail(sig, detail):
        fails.append({"sig": "C19/" + sig, "detail": detail})

    methods = [s2b(rq.get("method", "POST")) for rq in case["reqs"]]
    rs, upto, problem = RESP.parse_responses(wire, methods, eof=closed, final_marker=b"x-call")
    if problem and not (rs and not rs[-1].complete and closed):
        fail("wire-malformed", "interim or final response not at a response boundary / stray bytes: %s (at %d of %d): %r" % (problem, upto, len(wire), wire[max(0, upto - 30):upto + 40]))
        return fails
    # interims per request slot
    per = {}
    k = 0
    for r in rs:
        if r.interim:
            per[k] = per.get(k, 0) + 1
            if r.status != 100:
                fail("interim-status", "interim status %d" % r.status)
        else:
            k += 1
    finals = [r for r in rs if not r.interim]
    for idx, inf in enumerate(info):
        n = per.get(idx, 0)
        if idx >= len(finals) and not n:
            continue
        if not inf["expecting"]:
            if n:
                fail("interim-unasked/%s" % ("http10" if inf["version"] == "1.0" else "no-expect"), "request %d did not ask (or is HTTP/1.0) but got %d interim response(s)" % (idx, n))
            continue
        if n > 1:
            fail("interim-twice", "request %d got %d interim responses" % (idx, n))
        fin = finals[idx] if idx < len(finals) else None
        refused_outright = fin is not None and not fin.get(b"x-call") and fin.status >= 400
        if inf["waiting"] and n == 0 and not refused_outright and fin is not None:
            fail("final-without-interim", "request %d: client waited, no interim was sent, yet a final response exists (the body can not have been read)" % idx)
    if still_waiting is not None:
        fail("client-left-waiting", "request %d: the client waits for 100 Continue (or a final response) and nothing comes; wire so far %d bytes, closed=%s" % (
            still_waiting, len(wire), closed))
    # leftover interim after the last final belongs to a request that never got its final
    # executed exactly once, in order, with exactly its own fields
    seen = []
    for c in calls:
        env = c["environ"]
        seen.append(env.get("PATH_INFO"))
        kreq = env.get("HTTP_X_REQ")
        for key, v in env.items():
            if key.startswith("HTTP_X_ONLY_") and key != "HTTP_X_ONLY_%s" % kreq:
                fail("foreign-header", "request %s received header %s=%r of another request" % (env.get("PATH_INFO"), key, v))
        if kreq is not None and kreq.isdigit() and int(kreq) < len(info):
            want = info[int(kreq)]["body"]
            if b2s(c["body"]) != want:
                fail("body", "request %s read %d body bytes, sent %d" % (env.get("PATH_INFO"), len(c["body"]), len(want)))
            if env.get("PATH_INFO") != "/q%s" % kreq:
                fail("foreign-header", "path %s carries X-Req %s" % (env.get("PATH_INFO"), kreq))
    if len(set(seen)) != len(seen):
        fail("executed-twice", "%r" % seen)
    if seen != sorted(seen):
        fail("out-of-order", "%r" % seen)
    # every request before the first refusal / close must have been executed exactly once
    must = []
    for idx, (rq, inf) in enumerate(zip(case["reqs"], info)):
        if inf["refused"]:
            break
        must.append("/q%d" % idx)
        if rq.get("conn") == "close" or (inf["version"] == "1.0" and rq.get("conn") != "keep-alive"):
            break
    if still_waiting is None and not fails:
        for p in must:
            if p not in seen:
                fail("request-lost", "request %s was never executed (executed: %r; finals: %r)" % (p, seen, [f.status for f in finals]))
                break
    return fails


def run_e2(case):
    segs, waits, info = plan(case)
    app = RecApp()
    adj = dict(case.get("adj") or {})
    adj.setdefault("max_request_body_size", 5000)
    w = simnet.World(app, adj=adj)
    still = None
    try:
        c = w.connect()
        for sg, wt in zip(segs, waits):
            if wt is not None:
                w.run(4000)
                if not c.closed and not client_may_proceed(bytes(c.client_rx), wt[1], wt[2]):
                    still = wt[1]
                    break
                if c.closed:
                    break
            c.inq.append(s2b(sg))
        w.run(6000)
        if w.handle_errors:
            return [{"sig": "C19/raises/%s" % w.handle_errors[0][1], "detail": "%r" % (w.handle_errors[0],)}], info
        wire = bytes(c.client_rx) + bytes(c.kbuf)
        return judge(case, info, wire, c.closed, app.calls, still), info
    finally:
        w.close()


def run_e3(case, source, record):
    segs, waits, info = plan(case)
    adj = dict(case.get("adj") or {})
    adj.setdefault("max_request_body_size", 5000)
    adj.setdefault("threads", 1)
    app = RecApp()
    sc = {"adj": adj, "gran": case.get("gran", "sync"), "sndbuf": case.get("sndbuf", 1 << 20), "infinite_timeouts": True,
          "conns": [{"segments": segs, "waits": waits, "capacity": case.get("capacity"), "drain": case.get("drain", "all")}]}
    r, sched = run_scenario(sc, source, record_decisions=record, app=app)
    c = r.conns[0]
    still = None
    for name, st_, what in r.threads:
        if name == "snd0" and st_ == "blocked" and what == "client.wait-continue":
            # which request?
            sent = 0
            for wt in waits:
                if wt is not None:
                    still = wt[1]
            # the first wait that is not satisfied
            for wt in waits:
                if wt is not None and not client_may_proceed(c["rx"], wt[1], wt[2]):
                    still = wt[1]
                    break
    fails = []
    if r.handle_errors:
        fails.append({"sig": "C19/raises/%s" % r.handle_errors[0][1], "detail": "%r" % (r.handle_errors[0],)})
    for name, d in r.died:
        fails.append({"sig": "C19/thread-died/" + d[0], "detail": "%s: %s" % (name, d[1])})
    for lvl, msg, et in r.logs:
        if lvl >= 40 and et is not None:
            fails.append({"sig": "C19/exception-logged/%s" % et, "detail": "the server logged %r (%s); the application never fails in this scenario" % (msg, et)})
            break
    if r.spin:
        fails.append({"sig": "C19/spin", "detail": "loop spins: %r" % (r.snap["channels"],)})
    fails += judge(case, info, c["rx"] + c["pending"], c["closed"], app.calls, still)
    return fails, info, r, sched


def validate(case):
    rq = case.get("reqs")
    if not isinstance(rq, list) or not (1 <= len(rq) <= 5):
        raise C.CaseInvalid("reqs")
    for r in rq:
        if r.get("version", "1.1") not in ("1.0", "1.1") or r.get("framing", "none") not in ("none", "cl", "cl0", "chunked", "badcl", "toolarge"):
            raise C.CaseInvalid("req")
        if not isinstance(r.get("body", ""), str) or len(r.get("body", "")) > 400 or r.get("conn") not in (None, "close", "keep-alive"):
            raise C.CaseInvalid("body")
        if r.get("framing") == "chunked" and r.get("version", "1.1") != "1.1":
            raise C.CaseInvalid("chunked on 1.0")
        if r.get("framing", "none") in ("none", "cl0") and r.get("body"):
            raise C.CaseInvalid("body without framing")
        if r.get("framing") == "cl" and not r.get("body"):
            raise C.CaseInvalid("empty cl")
        if r.get("method", "POST") not in ("POST", "PUT", "GET") or r.get("split", False) not in (False, True, 2):
            raise C.CaseInvalid("method")
        if r.get("head_start", 0) not in (0, 1, 2, 5):
            raise C.CaseInvalid("head_start")
    adj = case.get("adj") or {}
    if adj.get("channel_request_lookahead", 0) not in (0, 1, 2, 3) or adj.get("threads", 1) not in (1, 2):
        raise C.CaseInvalid("adj")
    if case.get("mode", "e2") not in ("e2", "e3") or case.get("gran", "sync") not in ("sync", "line"):
        raise C.CaseInvalid("mode")
    if case.get("capacity") is not None and (not isinstance(case["capacity"], int) or case["capacity"] < 1):
        raise C.CaseInvalid("capacity")
    if case.get("drain", "all") != "all" and (not isinstance(case["drain"], int) or case["drain"] < 1):
        raise C.CaseInvalid("drain")


def labels_of(case, info):
    labels = {"mode:" + case.get("mode", "e2"), "lookahead:%d" % (case.get("adj") or {}).get("channel_request_lookahead", 0)}
    nontrivial = False
    for idx, inf in enumerate(info):
        if inf["expecting"]:
            labels.add("expecting")
            if idx > 0:
                labels.add("expecting-not-first")
                nontrivial = True
            if inf["bodyless"]:
                labels.add("expecting-bodyless")
                nontrivial = True
            if inf["refused"]:
                labels.add("expecting-refused")
                nontrivial = True
            if inf["waiting"]:
                labels.add("client-waits")
    return labels, nontrivial


def run_case_full(case, source=None, record=False):
    validate(case)
    if case.get("mode", "e2") == "e2":
        fails, info = run_e2(case)
        labels, nt = labels_of(case, info)
        return fails, nt, labels, None, None
    if source is None:
        try:
            source = S.make_source(case.get("schedule"))
        except Exception:
            raise C.CaseInvalid("schedule")
    try:
        fails, info, r, sched = run_e3(case, source, record)
    except simsched.Overrun:
        return [], False, {"overrun"}, None, None
    labels, nt = labels_of(case, info)
    if r.preemptions:
        labels.add("preempted")
    return fails, nt and r.preemptions > 0, labels, r.trace, sched


def run_case(case):
    return run_case_full(case)[0]


def req_strategy():
    @st.composite
    def build(draw):
        version = draw(st.sampled_from(["1.1", "1.1", "1.1", "1.0"]))
        fr = draw(st.sampled_from(["cl", "cl", "chunked", "none", "cl0", "badcl", "toolarge"]))
        if version == "1.0" and fr == "chunked":
            fr = "cl"
        body = draw(st.sampled_from(["abc", "x" * 40, "GET /smuggle HTTP/1.1\r\n\r\n"])) if fr in ("cl", "chunked", "badcl", "toolarge") else ""
        if fr == "chunked" and draw(st.integers(0, 3)) == 0:
            body = ""
        return {"version": version, "framing": fr, "body": body, "expect": draw(st.sampled_from([True, True, False])),
                "wait": draw(st.sampled_from([True, True, False])), "split": draw(st.sampled_from([False, True, 2])), "conn": draw(st.sampled_from([None, None, None, "keep-alive", "close"])),
                "method": draw(st.sampled_from(["POST", "PUT", "GET"])), "head_start": draw(st.sampled_from([0, 0, 0, 1, 2]))}

    return build()


def case_strategy(mode=None):
    @st.composite
    def build(draw):
        reqs = draw(st.lists(req_strategy(), min_size=1, max_size=4))
        total = sum(len(a) + len(b) for a, b in (req_wire(k, r) for k, r in enumerate(reqs)))
        m = mode or draw(st.sampled_from(["e2", "e3"]))
        case = {"reqs": reqs, "cuts": draw(st.lists(st.integers(1, max(2, total - 1)), max_size=4)), "mode": m,
                "adj": {"channel_request_lookahead": draw(st.sampled_from([0, 0, 1, 2]))}}
        if m == "e3":
            case["adj"]["threads"] = draw(st.sampled_from([1, 1, 2]))
            case["capacity"] = draw(st.sampled_from([None, None, 10, 60]))
            case["drain"] = draw(st.sampled_from(["all", 8]))
            case["gran"] = draw(st.sampled_from(["sync", "sync", "line"]))
            case["schedule"] = draw(S.schedule_strategy())
        return case

    return build()


X = {"version": "1.1", "framing": "cl", "body": "abc", "expect": True, "wait": True}
N = {"version": "1.1", "framing": "none", "expect": False}
FIXED = [
    {"mode": "e3", "reqs": [N, X], "adj": {"threads": 1}},
    {"mode": "e3", "reqs": [N, X], "adj": {"threads": 1}, "capacity": 10, "drain": 8},
    {"mode": "e3", "reqs": [N, N, X, N], "adj": {"threads": 2, "channel_request_lookahead": 2}},
    {"mode": "e3", "reqs": [X, dict(X, framing="chunked"), N], "adj": {"threads": 1, "channel_request_lookahead": 1}, "capacity": 30},
    {"mode": "e3", "reqs": [N, dict(X, wait=False), dict(X, framing="none", body="")], "adj": {"threads": 1}},
    {"mode": "e3", "reqs": [N, dict(X, framing="badcl"), N], "adj": {"threads": 1}},
    {"mode": "e3", "reqs": [N, dict(X, wait=False, split=True)], "adj": {"threads": 1}},
    {"mode": "e3", "reqs": [N, dict(X, head_start=1)], "adj": {"threads": 1}},
    {"mode": "e3", "reqs": [N, N, dict(X, head_start=2, body="abcdefgh"), N], "adj": {"threads": 2, "channel_request_lookahead": 1}},
    {"mode": "e3", "reqs": [N, dict(X, wait=False, split=2, body="abcdefgh")], "adj": {"threads": 1}},
    {"mode": "e3", "reqs": [N, dict(X, wait=False, split=2, body="abcdefgh", framing="chunked"), N], "adj": {"threads": 1, "channel_request_lookahead": 1}},
    {"mode": "e3", "reqs": [N, dict(X, wait=False, split=True, framing="chunked"), N], "adj": {"threads": 2, "channel_request_lookahead": 1}, "capacity": 40},
]
QUICK = (1, 1200, 250, 220, 10)


def e2_table():
    kinds = [
        {"version": "1.1", "framing": "cl", "body": "abc", "expect": True, "wait": True},
        {"version": "1.1", "framing": "cl", "body": "abc", "expect": True, "wait": False},
        {"version": "1.1", "framing": "cl", "body": "abcdef", "expect": True, "wait": True, "head_start": 2},
        {"version": "1.1", "framing": "chunked", "body": "abcd", "expect": True, "wait": True},
        {"version": "1.1", "framing": "none", "expect": True},
        {"version": "1.1", "framing": "cl0", "expect": True},
        {"version": "1.1", "framing": "badcl", "body": "abc", "expect": True, "wait": True},
        {"version": "1.1", "framing": "toolarge", "body": "abc", "expect": True, "wait": True},
        {"version": "1.0", "framing": "cl", "body": "abc", "expect": True, "wait": False, "conn": "keep-alive"},
        {"version": "1.1", "framing": "none", "expect": False},
        {"version": "1.1", "framing": "cl", "body": "xyz", "expect": False},
    ]
    import itertools
    for n in (1, 2, 3):
        for combo in itertools.product(range(len(kinds)), repeat=n):
            for la in ((0, 1) if n > 1 else (0,)):
                yield {"mode": "e2", "reqs": [dict(kinds[i]) for i in combo], "adj": {"channel_request_lookahead": la}}


def jobs(tier, seed):
    js = SP.jobs(sys.modules[__name__], tier, seed)
    for sh in range(8):
        js.append({"kind": "e2_table", "shard": sh, "nshards": 8})
    n = 1500 if tier == "quick" else 40000
    for sh in range(8):
        js.append({"kind": "e2_hyp", "n": n, "seed": derive_seed(seed, "c19e2", sh)})
    return js


def run_job(job, col):
    if job["kind"] == "e2_table":
        for i, case in enumerate(e2_table()):
            if i % job["nshards"] == job["shard"]:
                fs, nt, labels, _t, _s = run_case_full(case)
                col.record(case, fs, nontrivial=nt, labels=labels)
        col.exhaustive("single-thread world: all pipelines of length <= 3 over 10 request kinds x lookahead {0,1}, waiting client")
    elif job["kind"] == "e2_hyp":
        def one(case):
            try:
                fs, nt, labels, _t, _s = run_case_full(case)
            except C.CaseInvalid:
                col.labels["outside-domain"] += 1
                return
            col.record(case, fs, nontrivial=nt, labels=labels)

        hyp_run(case_strategy("e2"), one, job["n"], job["seed"])
    else:
        SP.run_job(sys.modules[__name__], job, col)
