"""C05 - No lost wake-up: responses are delivered without relying on the poll timeout.

All poll / select time-outs are taken as infinite.  Scenarios around the send-buffer, send_bytes and
high-watermark thresholds, both poll implementations, a client that keeps reading.  The state in which
nothing can run any more (quiescence, or a spin of the loop without progress) is judged.
"""
import sys

from hypothesis import strategies as st

from .. import case as C
from .. import schedprop as SP
from .. import schedules as S
from .. import simsched
from ..case import s2b
from ..refhttp import response as RESP
from ..schedworld import run_scenario
from ..world import adj_default
from . import c04

PID = "C05"
LEVEL = "exploration"
TECHNIQUE = ("schedule-controlled concurrency testing with every poll/select time-out taken as infinite (a missing wake-up "
             "cannot be papered over): generated scenarios around sndbuf / send_bytes / watermark thresholds x generated "
             "schedules + delay-bounded enumeration; quiescence (and no-progress spin) predicates as the liveness oracle")
RULE = ("case = (1..3 requests on a connection, response chunk sizes around SO_SNDBUF / send_bytes / outbuf_high_watermark, "
        "1..2 workers, select or poll, socket capacity, client read size; the client always reads) x schedule; non-trivial = "
        "the run had a partial send or a watermark wait, and the I/O thread blocked in select/poll at least once while a "
        "worker was active (>= 1 pre-emption); distinct by case hash")
ASSUMPTIONS = ["liveness is judged in its safety form: a closed world with infinite time-outs reaches quiescence and that state is examined",
               "fair scheduling: every enabled thread is eventually chosen (runs end only at quiescence); kernel-level wake-ups are not modelled"]


def validate(case):
    cl = conn_list(case) if (case.get("conns") or isinstance(case.get("reqs"), int)) else None
    if not cl or len(cl) > 3:
        raise C.CaseInvalid("conns")
    for cc in cl:
        if not isinstance(cc.get("reqs"), int) or not (1 <= cc["reqs"] <= 4):
            raise C.CaseInvalid("reqs")
        if cc.get("capacity") is not None and (not isinstance(cc["capacity"], int) or cc["capacity"] < 1):
            raise C.CaseInvalid("capacity")
        if cc.get("drain", "all") != "all" and (not isinstance(cc["drain"], int) or cc["drain"] < 1):
            raise C.CaseInvalid("drain")
    for b in case.get("apps") or []:
        if b.get("status") != "200 OK" or b.get("mode") not in ("list", "gen", "write", "purelist"):
            raise C.CaseInvalid("beh")
        if any(not isinstance(c, str) or len(c) > 4000 for c in b.get("chunks", [])):
            raise C.CaseInvalid("chunks")
    if not case.get("apps"):
        raise C.CaseInvalid("apps")
    adj = case.get("adj") or {}
    for k, lo in (("send_bytes", 1), ("outbuf_high_watermark", 0), ("outbuf_overflow", 1), ("threads", 1)):
        if k in adj and (not isinstance(adj[k], int) or adj[k] < lo):
            raise C.CaseInvalid(k)
    if adj.get("threads", 1) > 3 or case.get("gran", "sync") not in ("sync", "line"):
        raise C.CaseInvalid("threads")
    if case.get("capacity") is not None and (not isinstance(case["capacity"], int) or case["capacity"] < 1):
        raise C.CaseInvalid("capacity")
    if case.get("drain", "all") != "all" and (not isinstance(case["drain"], int) or case["drain"] < 1):
        raise C.CaseInvalid("drain")
    if not isinstance(case.get("sndbuf", 1), int) or case.get("sndbuf", 1) < 1:
        raise C.CaseInvalid("sndbuf")
    for cc in (case.get("conns") or [case]):
        for k, v in (cc.get("faults") or {}).items():
            if v != "EAGAIN" or not k.startswith("recv:") or not k[5:].isdigit():
                raise C.CaseInvalid("faults")


def conn_list(case):
    if case.get("conns"):
        return case["conns"]
    return [{"reqs": case["reqs"], "cuts": case.get("cuts") or [], "capacity": case.get("capacity"), "drain": case.get("drain", "all"),
             "close_last": case.get("close_last"), "faults": case.get("faults")}]


def to_scenario(case):
    conns = []
    for ci, cc in enumerate(conn_list(case)):
        n = cc["reqs"]
        stream = ""
        for i in range(n):
            stream += "GET /c%d/r%d HTTP/1.1\r\nHost: h\r\nX-Conn: %d\r\n%s\r\n" % (ci, i, ci, "Connection: close\r\n" if cc.get("close_last") and i == n - 1 else "")
        segs = []
        prev = 0
        for c in sorted(set(x for x in (cc.get("cuts") or []) if 0 < x < len(stream))):
            segs.append(stream[prev:c])
            prev = c
        segs.append(stream[prev:])
        conns.append({"segments": segs, "capacity": cc.get("capacity"), "drain": cc.get("drain", "all"),
                      # a spurious readiness event: the socket was reported readable, recv() says EAGAIN, the data is still to come
                      "faults": {k: v for k, v in (cc.get("faults") or {}).items()}})
    adj = dict(case.get("adj") or {})
    adj.setdefault("threads", 1)
    return {"adj": adj, "gran": case.get("gran", "sync"), "apps": case["apps"], "sndbuf": case.get("sndbuf", 1 << 20), "infinite_timeouts": True,
            "conns": conns}


def liveness_failures(case, r, prefix, expect_all_served=True, nreq=None):
    fails = []

    def fail(sig, detail):
        fails.append({"sig": prefix + "/" + sig, "detail": detail})

    snap = r.snap
    sbytes = (case.get("adj") or {}).get("send_bytes", 1)
    # output below the (deprecated) send_bytes threshold is held back on purpose while a request is running
    held_back = all(c["tol"] < sbytes and c["requests"] > 0 for c in snap["channels"] if c["tol"] > 0) and any(c["tol"] > 0 for c in snap["channels"])
    if r.handle_errors:
        fail("handle-error/" + str(r.handle_errors[0][1]), "%r" % (r.handle_errors[0],))
    for name, d in r.died:
        fail("thread-died/" + d[0], "%s: %s" % (name, d[1]))
    if snap["spin"] and not held_back:
        fail("spin", "the I/O loop spins on a ready socket without making progress: channels %r, parked %r" % (
            [(c["tol"], c["requests"]) for c in snap["channels"]], snap["parked_producers"]))
    for name, fd in snap["parked_producers"]:
        ch = [c for c in snap["channels"] if c["fd"] == fd][0]
        wm = (case.get("adj") or {}).get("outbuf_high_watermark", adj_default("outbuf_high_watermark"))
        why = "backlog %d <= watermark %d" % (ch["tol"], wm) if ch["tol"] <= wm else ("disconnected" if not ch["connected"] else "client keeps reading")
        fail("producer-parked-forever", "worker %s waits for buffer space at quiescence (%s); blocked: %r" % (name, why, snap["blocked"]))
    for ch in snap["channels"]:
        if ch["tol"] > 0 and ch["in_map"] and ch["sock_writable"] and not snap["spin"] and not snap["parked_producers"] and not (ch["tol"] < sbytes and ch["requests"] > 0):
            fail("output-undelivered", "channel has %d bytes pending, its socket is writable, and nothing is running: %r" % (ch["tol"], snap["blocked"]))
        if ch["requests"] > 0 and ch["in_map"] and snap["queue"] == 0 and len(snap["idle_workers"]) == (case.get("adj") or {}).get("threads", 1):
            fail("request-unserviced", "channel has %d queued request(s) but every worker is idle and the task queue is empty" % ch["requests"])
        if (ch["will_close"] or ch["cwf"]) and ch["tol"] == 0 and ch["in_map"] and not ch["sock_closed"] and ch["requests"] == 0:
            fail("close-pending-forever", "channel is marked for closing with nothing to flush but is still open at quiescence")
    if snap["queue"] > 0 and snap["idle_workers"]:
        fail("idle-worker-with-queued-task", "%d task(s) queued while %r sleep" % (snap["queue"], snap["idle_workers"]))
    return fails


def run_case_full(case, source=None, record=False):
    validate(case)
    sc = to_scenario(case)
    if source is None:
        try:
            source = S.make_source(case.get("schedule"))
        except Exception:
            raise C.CaseInvalid("schedule")
    try:
        r, sched = run_scenario(sc, source, record_decisions=record)
    except simsched.Overrun:
        return [], False, {"overrun"}, None, None
    fails = liveness_failures(case, r, "C05")
    # every complete request has its whole response delivered, or the connection is closed
    stalls = any(b.get("stall_after") is not None for b in case["apps"])
    for ci, cc in enumerate(conn_list(case)):
        c = r.conns[ci]
        n = cc["reqs"]
        if not fails and not stalls:
            rs, _u, problem = RESP.parse_responses(c["rx"], [b"GET"] * n, eof=c["closed"], final_marker=b"x-call")
            finals = [x for x in rs if not x.interim and x.complete]
            if not c["closed"] and len(finals) < n:
                fails.append({"sig": "C05/response-not-delivered", "detail": "conn %d: %d of %d responses complete on the wire at quiescence, connection open; %s; blocked %r; pending-in-socket %d" % (
                    ci, len(finals), n, problem, r.snap["blocked"], len(c["pending"]))})
    labels = {"gran:" + case.get("gran", "sync"), "poll" if (case.get("adj") or {}).get("asyncore_use_poll") else "select", "conns:%d" % len(r.conns)}
    if stalls:
        labels.add("stalling-app")
    partial = any(a < o for c in r.conns for _t, o, a in c["send_log"])
    if partial:
        labels.add("partial-send")
    if r.trigger_pulls:
        labels.add("trigger-pulled")
    if r.snap["channels"] and r.snap["channels"][0]["max_tol"] > (case.get("adj") or {}).get("outbuf_high_watermark", adj_default("outbuf_high_watermark")):
        labels.add("above-watermark")
    nontrivial = (partial or "above-watermark" in labels) and r.preemptions > 0
    return fails, nontrivial, labels, r.trace, sched


def run_case(case):
    return run_case_full(case)[0]


def beh_strategy(sizes):
    return st.fixed_dictionaries({
        "status": st.just("200 OK"), "mode": st.sampled_from(["list", "gen", "write", "purelist"]),
        "chunks": st.lists(st.sampled_from(sizes).map(lambda n: "z" * n), min_size=1, max_size=4),
        "with_cl": st.booleans(),
    }).map(lambda b: dict({k: v for k, v in b.items() if k != "with_cl"}, **({"declared_cl": sum(len(c) for c in b["chunks"])} if b["with_cl"] else {})))


def case_strategy():
    @st.composite
    def build(draw):
        sndbuf = draw(st.sampled_from([8, 32, 100, 1 << 20]))
        wm = draw(st.sampled_from([None, None, 1, 20, 100]))
        sb = draw(st.sampled_from([None, None, 1, 10, 50]))
        base = [1, 5, sndbuf - 1 if sndbuf < 1000 else 50, sndbuf if sndbuf < 1000 else 200, (sndbuf + 1) if sndbuf < 1000 else 300]
        if wm:
            base += [wm, wm + 1, 2 * wm + 3]
        if sb:
            base += [sb, sb + 1]
        adj = {"threads": draw(st.sampled_from([1, 1, 2]))}
        if wm is not None:
            adj["outbuf_high_watermark"] = wm
        if sb is not None and (wm is None or sb <= wm):
            adj["send_bytes"] = sb
        if draw(st.booleans()):
            adj["asyncore_use_poll"] = True
        if draw(st.integers(0, 3)) == 0:
            adj["outbuf_overflow"] = draw(st.sampled_from([16, 64]))
        apps = draw(st.lists(beh_strategy([max(0, x) for x in base]), min_size=1, max_size=3))
        if draw(st.integers(0, 3)) == 0:
            b = apps[-1]
            if b["mode"] in ("gen", "list"):
                b["stall_after"] = draw(st.integers(1, len(b["chunks"])))
                b.pop("declared_cl", None)
        conns = [{"reqs": draw(st.integers(1, 3)), "capacity": draw(st.sampled_from([None, 7, 30, 64, 200])), "drain": draw(st.sampled_from(["all", 3, 16])),
                  "close_last": draw(st.booleans()), "cuts": draw(st.lists(st.integers(1, 150), max_size=2))}
                 for _ in range(draw(st.sampled_from([1, 1, 2])))]
        return {"conns": conns, "apps": apps, "adj": adj, "sndbuf": sndbuf,
                "gran": draw(st.sampled_from(["sync", "sync", "sync", "line"])), "schedule": draw(S.schedule_strategy())}

    return build()


BIG = {"status": "200 OK", "mode": "gen", "chunks": ["z" * 60, "y" * 60, "x" * 60]}
BIGCL = {"status": "200 OK", "mode": "write", "chunks": ["z" * 90, "y" * 40], "declared_cl": 130}
STALL = {"status": "200 OK", "mode": "gen", "chunks": ["s" * 90, "t" * 10], "stall_after": 1}
OKB = {"status": "200 OK", "mode": "list", "chunks": ["ok"], "declared_cl": 2}
FIXED = [
    # spurious readiness: recv() answers EAGAIN once (first read / a later read); the connection is served or closed, never left hanging
    {"reqs": 2, "apps": [OKB], "adj": {"threads": 1}, "cuts": [40], "faults": {"recv:0": "EAGAIN"}},
    {"reqs": 3, "apps": [OKB], "adj": {"threads": 2, "asyncore_use_poll": True}, "cuts": [50, 100], "faults": {"recv:1": "EAGAIN"}},
    {"reqs": 1, "apps": [STALL], "adj": {"threads": 1}, "sndbuf": 1 << 20, "capacity": 40, "drain": "all"},
    {"reqs": 1, "apps": [STALL], "adj": {"threads": 1, "asyncore_use_poll": True}, "sndbuf": 32, "capacity": 24, "drain": 8},
    {"conns": [{"reqs": 2}, {"reqs": 2}], "apps": [OKB], "adj": {"threads": 2}},
    {"conns": [{"reqs": 1, "close_last": True}, {"reqs": 2}, {"reqs": 1}], "apps": [OKB], "adj": {"threads": 2, "asyncore_use_poll": True}},
    {"reqs": 1, "apps": [BIG], "adj": {"threads": 1, "outbuf_high_watermark": 20}, "sndbuf": 16, "capacity": 16, "drain": 8},
    {"reqs": 2, "apps": [BIGCL], "adj": {"threads": 1, "outbuf_high_watermark": 50, "send_bytes": 10}, "sndbuf": 32, "capacity": 20, "drain": "all"},
    {"reqs": 2, "apps": [BIGCL, BIG], "adj": {"threads": 2, "asyncore_use_poll": True}, "sndbuf": 64, "capacity": 30, "drain": 16, "close_last": True},
    {"reqs": 3, "apps": [{"status": "200 OK", "mode": "list", "chunks": ["ok"], "declared_cl": 2}], "adj": {"threads": 1}, "cuts": [50, 100]},
    {"reqs": 1, "apps": [BIG], "adj": {"threads": 1, "outbuf_high_watermark": 1, "asyncore_use_poll": True}, "sndbuf": 8, "capacity": 8, "drain": 4},
    {"reqs": 2, "apps": [BIG], "adj": {"threads": 2, "outbuf_high_watermark": 100}, "sndbuf": 1 << 20, "capacity": 50, "drain": "all", "close_last": True},
]


QUICK = (1, 1500, 700, 500, 12)
THOROUGH = (2, 30000, 12000, 10000, 16)


def jobs(tier, seed):
    return SP.jobs(sys.modules[__name__], tier, seed)


def run_job(job, col):
    SP.run_job(sys.modules[__name__], job, col)
