"""C18 - Connection limit holds; idle connections are reaped, busy ones never.

Model-based histories under a simulated clock: connect / send-partial / send-complete / client-reads /
client-stalls / client-closes / app-finishes / clock-advance events drive the real server (real I/O
thread and workers under the baton scheduler, deterministic schedule); invariants are checked after
every step against a small reference model of activity times and request states.
"""
from hypothesis import strategies as st

from .. import case as C
from .. import schedules as S
from .. import simnet, simsched
from ..case import s2b
from ..runner import derive_seed, hyp_run

PID = "C18"
LEVEL = "exploration"
TECHNIQUE = ("stateful / model-based property testing: generated event histories under a simulated clock applied to the real "
             "server (I/O thread + workers under the baton scheduler, applications that stay blocked across events) and to a "
             "reference model of per-connection activity; invariants checked after every step; short histories enumerated")
RULE = ("case = (connection_limit in {4,6,100}, channel_timeout in {2,120}, cleanup_interval in {1,30}, 1..2 listening sockets, "
        "1..2 workers, history of <= 40 events: connect, send partial/complete request (blocking application or not), client "
        "reads / stalls / closes, application finishes, clock advance); non-trivial = the history contains a clock advance past "
        "channel_timeout while >= 1 connection is busy and >= 1 is idle, or reaches the connection limit; distinct by case hash")
ASSUMPTIONS = ["loop period = asyncore_loop_timeout (1 s): every clock advance is followed by the loop turn(s) whose poll time-out expired",
               "reaping deadline = last activity + channel_timeout + cleanup_interval + 2 loop periods (one of slack for the strict comparisons)",
               "deterministic schedule (the quantifier is over histories and configurations, not interleavings)"]
LOOP = 1.0


class App:
    def __init__(self, sched):
        self.sched = sched
        self.blocked = []       # tokens of blocked application calls, in order
        self.released = set()
        self.running = {}       # token -> path
        self.finished = []
        self.n = 0

    def __call__(self, environ, start_response):
        self.n += 1
        tok = self.n
        path = environ["PATH_INFO"]
        self.running[tok] = path
        if "/sblock" in path:
            # a streaming application: writes a first piece, then waits (request still executing, output may be pending)
            start_response("200 OK", [("Content-Type", "text/plain")])

            def gen():
                yield b"s" * 200
                self.blocked.append(tok)
                self.sched.block(lambda: tok in self.released, "app.blocked")
                self.running.pop(tok, None)
                self.finished.append(path)
                yield b"end"

            return gen()
        if "/block" in path:
            self.blocked.append(tok)
            self.sched.block(lambda: tok in self.released, "app.blocked")
        self.running.pop(tok, None)
        self.finished.append(path)
        start_response("200 OK", [("Content-Length", "2")])
        return [b"ok"]


def validate(case):
    cfg = case.get("cfg") or {}
    if cfg.get("connection_limit", 100) not in (4, 5, 6, 100) or cfg.get("channel_timeout", 120) not in (2, 120) or cfg.get("cleanup_interval", 30) not in (1, 30):
        raise C.CaseInvalid("cfg")
    if case.get("capacity") is not None and (not isinstance(case["capacity"], int) or case["capacity"] < 1):
        raise C.CaseInvalid("capacity")
    if case.get("nlisten", 1) not in (1, 2) or cfg.get("threads", 1) not in (1, 2):
        raise C.CaseInvalid("nlisten")
    ops = case.get("ops")
    if not isinstance(ops, list) or len(ops) > 60:
        raise C.CaseInvalid("ops")
    for op in ops:
        if not isinstance(op, list) or not op or op[0] not in ("connect", "send", "partial", "reads", "stalls", "closes", "finish", "clock", "burst"):
            raise C.CaseInvalid("op")
        if op[0] == "clock" and (len(op) != 2 or not isinstance(op[1], (int, float)) or not (0 < op[1] <= 1000)):
            raise C.CaseInvalid("clock")
        if op[0] in ("send", "partial", "reads", "stalls", "closes", "connect") and (len(op) < 2 or not isinstance(op[1], int) or op[1] < 0):
            raise C.CaseInvalid("index")
        if op[0] == "send" and (len(op) != 3 or op[2] not in (True, False, 2, 3, 4, 5)):
            raise C.CaseInvalid("send")


def run_history(case):
    validate(case)
    cfg = dict(case.get("cfg") or {})
    cfg.setdefault("threads", 1)
    nl = case.get("nlisten", 1)
    limit = cfg.get("connection_limit", 100)
    timeout = cfg.get("channel_timeout", 120)
    cleanup = cfg.get("cleanup_interval", 30)
    try:
        source = S.make_source(case.get("schedule"))
    except Exception:
        raise C.CaseInvalid("schedule")
    if case.get("gran", "sync") not in ("sync", "line"):
        raise C.CaseInvalid("gran")
    sched = simsched.Scheduler(source, granularity=case.get("gran", "sync"), infinite_timeouts=False, step_limit=200000, auto_timers=0)
    app = App(sched)
    w = simnet.World(app, adj=cfg, sched=sched, nlisten=nl)
    fails = []
    labels = set()
    nontrivial = False

    def fail(sig, detail):
        if not any(f["sig"] == "C18/" + sig for f in fails):
            fails.append({"sig": "C18/" + sig, "detail": detail + " (step %d: %r)" % (step, op)})

    conns = []      # model: dict(sock, la, open, stalled, nreq, busy tokens)
    step = -1
    op = None
    try:
        w.start_io()
        sched.run()
        max_map = len(w.map)

        def settle():
            # the client side reads whatever it is willing to read, then the loop runs to quiescence
            for _ in range(50):
                sched.run()
                moved = False
                for m in conns:
                    if not m["stalled"] and m["sock"].kbuf:
                        m["sock"].client_drain()
                        m["la"] = w.clock.now
                        moved = True
                if not moved:
                    break

        def busy(m):
            # a request of this connection is queued or executing
            for ch in list(w.server.active_channels.values()) + [c for s in w.servers[1:] for c in s.active_channels.values()]:
                if ch.socket is m["sock"] and ch.requests:
                    return True
            return False

        def check(after_clock=False):
            nonlocal max_map, nontrivial
            n = len(w.map)
            max_map = max(max_map, n)
            if n > limit + (nl - 1):
                fail("limit-exceeded", "%d descriptors in the loop, connection_limit %d with %d listener(s)" % (n, limit, nl))
            if n >= limit:
                labels.add("at-limit")
            # pending connections are accepted when there is room
            for li, l in enumerate(w.listeners):
                if l.backlog and n < limit and not l.closed:
                    fail("not-accepting-below-limit", "listener %d has %d pending connection(s) while the loop manages %d < %d descriptors" % (li, len(l.backlog), n, limit))
            now = w.clock.now
            idle_open = busy_open = 0
            for i, m in enumerate(conns):
                s = m["sock"]
                if not m["accepted"]:
                    if s in w.accepted:
                        m["accepted"] = True
                        m["la"] = now   # the server stamps last_activity when it accepts (upper bound: first seen accepted now)
                    else:
                        continue
                b = busy(m)
                if s.closed:
                    if m["open"]:
                        m["open"] = False
                        still_running = any(pth.startswith("/c%d/" % i) for pth in app.running.values())
                        if m["was_busy"] and still_running and not m["client_closed"]:
                            fail("busy-connection-reaped", "connection %d was closed by the server while one of its requests was queued or executing (idle for %.1fs, timeout %d)" % (
                                i, now - m["la"], timeout))
                    continue
                m["was_busy"] = b
                if b:
                    busy_open += 1
                    m["la"] = now   # the server stamps last_activity when the request finishes
                else:
                    idle_open += 1
                    if after_clock and now > m["la"] + timeout + cleanup + 2 * LOOP and not m["client_closed"]:
                        fail("idle-not-reaped" + ("/stalled-client" if m["stalled"] else ""),
                             "connection %d has been idle for %.1fs (channel_timeout %d, cleanup_interval %d) and is still open" % (i, now - m["la"], timeout, cleanup))
            return idle_open, busy_open

        for step, op in enumerate(case["ops"]):
            k = op[0]
            if k == "connect":
                li = op[1] % nl
                s = w.connect(addr=("127.0.0.1", 41000 + len(conns)), listener=li)
                s.capacity = case.get("capacity")
                conns.append({"sock": s, "la": w.clock.now, "t_connect": w.clock.now, "open": True, "stalled": False, "accepted": False,
                              "was_busy": False, "client_closed": False, "nreq": 0, "partial_out": False})
                settle()
            elif k in ("send", "partial", "reads", "stalls", "closes"):
                if not conns:
                    continue
                m = conns[op[1] % len(conns)]
                s = m["sock"]
                if s.closed or m["client_closed"]:
                    continue
                if k == "send":
                    m["nreq"] += 1
                    path = "/c%d/%s%d" % (conns.index(m), "sblock" if op[2] == 2 else ("block" if op[2] is True else "r"), m["nreq"])
                    if m.get("half"):
                        s.inq.append(s2b(m["half"]))
                        m["half"] = None
                    elif op[2] == 3:
                        # the last request of the connection: the response announces closing (the channel waits for its output to drain)
                        s.inq.append(s2b("GET %s HTTP/1.1\r\nHost: h\r\nConnection: close\r\n\r\n" % path))
                    elif op[2] == 4:
                        s.inq.append(s2b("GET %s HTTP/1.0\r\nHost: h\r\n\r\n" % path))
                    elif op[2] == 5:
                        # an expecting request whose body is withheld: the server answers 100 Continue, no request is in progress,
                        # and the connection is idle from then on (the next "send" on this connection delivers the body)
                        s.inq.append(s2b("POST %s HTTP/1.1\r\nHost: h\r\nContent-Length: 5\r\nExpect: 100-continue\r\n\r\n" % path))
                        m["half"] = "hello"
                        labels.add("expect-body-withheld")
                    else:
                        s.inq.append(s2b("GET %s HTTP/1.1\r\nHost: h\r\n\r\n" % path))
                    if m["accepted"]:
                        m["la"] = w.clock.now
                elif k == "partial":
                    if not m.get("half"):
                        m["nreq"] += 1
                        full = "GET /c%d/p%d HTTP/1.1\r\nHost: h\r\n\r\n" % (conns.index(m), m["nreq"])
                        s.inq.append(s2b(full[:20]))
                        m["half"] = full[20:]
                        if m["accepted"]:
                            m["la"] = w.clock.now
                elif k == "reads":
                    m["stalled"] = False
                elif k == "stalls":
                    m["stalled"] = True
                elif k == "closes":
                    s.in_eof = True
                    m["client_closed"] = True
                settle()
            elif k == "burst":
                # every open, accepted, unstalled connection sends one request in the same instant: several workers finish at about the same time
                for m in conns:
                    s_ = m["sock"]
                    if s_.closed or m["client_closed"] or m["stalled"] or m.get("half"):
                        continue
                    m["nreq"] += 1
                    s_.inq.append(s2b("GET /c%d/r%d HTTP/1.1\r\nHost: h\r\n\r\n" % (conns.index(m), m["nreq"])))
                    if m["accepted"]:
                        m["la"] = w.clock.now
                settle()
            elif k == "finish":
                if app.blocked:
                    tok = app.blocked.pop(0)
                    app.released.add(tok)
                    settle()
            elif k == "clock":
                w.clock.now += float(op[1])
                # the poll time-out(s) that expired meanwhile: one loop turn each
                for _ in range(4):
                    t = [x for x in sched.threads if x.state == "blocked" and x.deadline is not None and x.deadline <= w.clock.now]
                    if not t:
                        break
                    sched.fire_next_timer()
                    settle()
            idle_open, busy_open = check(after_clock=(k == "clock"))
            if k == "clock" and op[1] > timeout and idle_open + busy_open > 0:
                labels.add("clock-past-timeout")
                if busy_open and (idle_open or any(not m["open"] for m in conns)):
                    nontrivial = True
                    labels.add("busy+idle-at-timeout")
            for m in conns:
                m["partial_out"] = bool(m["sock"].kbuf) and m["stalled"]
        if "at-limit" in labels:
            nontrivial = True
        for t in sched.threads:
            if t.died:
                fail("thread-died/" + t.died[0], "%s: %s" % (t.name, t.died[1]))
        if w.handle_errors:
            fail("handle-error/" + str(w.handle_errors[0][1]), "%r" % (w.handle_errors[0],))
        labels.add("max-map:%d" % min(max_map, 9))
        return fails, nontrivial, labels
    except simsched.Overrun:
        return [], False, {"overrun"}
    finally:
        try:
            sched.shutdown()
        finally:
            w.close()


def run_case(case):
    return run_history(case)[0]


def ops_strategy():
    idx = st.integers(0, 7)
    return st.lists(st.one_of(
        st.tuples(st.just("connect"), st.integers(0, 1)).map(list),
        st.tuples(st.just("connect"), st.integers(0, 1)).map(list),
        st.tuples(st.just("send"), idx, st.sampled_from([True, False, False, 2, 3, 4, 5])).map(list),
        st.tuples(st.just("send"), idx, st.sampled_from([True, False, False, 2, 3, 4, 5])).map(list),
        st.tuples(st.just("partial"), idx).map(list),
        st.tuples(st.just("reads"), idx).map(list),
        st.tuples(st.just("stalls"), idx).map(list),
        st.tuples(st.just("closes"), idx).map(list),
        st.just(["finish"]),
        st.tuples(st.just("clock"), st.sampled_from([0.5, 1, 1.5, 3, 5, 31, 40, 121, 125, 200, 500])).map(list),
        st.tuples(st.just("clock"), st.sampled_from([0.5, 1, 1, 1, 1.5])).map(list),
        st.tuples(st.just("clock"), st.sampled_from([0.5, 1, 1, 1, 1.5])).map(list),
    ), min_size=1, max_size=40)


@st.composite
def motif_ops(draw):
    """k connections; some stay active by sending every `step` seconds, the others go idle (or stay busy)"""
    k = draw(st.integers(2, 4))
    ops = [["connect", 0] for _ in range(k)]
    roles = [draw(st.sampled_from(["active", "idle", "busy", "partial", "streaming", "expect"])) for _ in range(k)]
    order = draw(st.permutations(list(range(k))))
    for i in order:
        if roles[i] == "streaming":
            if draw(st.booleans()):
                ops.append(["stalls", i])
            ops.append(["send", i, 2])
        elif roles[i] == "busy":
            ops.append(["send", i, True])
        elif roles[i] == "partial":
            ops.append(["partial", i])
        elif roles[i] == "expect":
            ops.append(["send", i, 5])
        else:
            ops.append(["send", i, False])
    step = draw(st.sampled_from([0.5, 1, 1, 1.5]))
    for _ in range(draw(st.integers(3, 12))):
        ops.append(["clock", step])
        for i in range(k):
            if roles[i] == "active":
                ops.append(["send", i, False])
    if draw(st.booleans()):
        ops.append(["finish"])
        ops.append(["clock", step])
    return ops


def case_strategy():
    return st.one_of(st.fixed_dictionaries({
        "cfg": st.fixed_dictionaries({"connection_limit": st.sampled_from([6, 100]), "channel_timeout": st.just(2),
                                      "cleanup_interval": st.sampled_from([1, 1, 30]), "threads": st.sampled_from([1, 2])}),
        "nlisten": st.sampled_from([1, 1, 2]), "capacity": st.sampled_from([None, 60]), "ops": motif_ops()}), _free_histories())


def _free_histories():
    return st.fixed_dictionaries({
        "cfg": st.fixed_dictionaries({"connection_limit": st.sampled_from([4, 6, 100]), "channel_timeout": st.sampled_from([2, 2, 120]),
                                      "cleanup_interval": st.sampled_from([1, 30]), "threads": st.sampled_from([1, 2])}),
        "nlisten": st.sampled_from([1, 1, 2]),
        "capacity": st.sampled_from([None, None, 60]),
        "ops": ops_strategy(),
    })


FIXED = [
    # a client that was told to go ahead (100 Continue) and then never sends the body is an idle connection like any other
    {"cfg": {"connection_limit": 100, "channel_timeout": 2, "cleanup_interval": 1}, "ops": [["connect", 0], ["connect", 0], ["send", 0, 5], ["send", 1, True],
                                                                                             ["clock", 1], ["clock", 1], ["clock", 5], ["clock", 5], ["finish"], ["clock", 1]]},
    # ... and one that does send it in time is served
    {"cfg": {"connection_limit": 100, "channel_timeout": 2, "cleanup_interval": 1}, "ops": [["connect", 0], ["send", 0, 5], ["clock", 1], ["send", 0, False],
                                                                                             ["clock", 1], ["send", 0, 5], ["clock", 5], ["clock", 5]]},
    # busy connection must survive, idle one must go
    {"cfg": {"connection_limit": 100, "channel_timeout": 2, "cleanup_interval": 1}, "ops": [["connect", 0], ["connect", 0], ["send", 0, True], ["send", 1, False],
                                                                                             ["clock", 5], ["clock", 5], ["clock", 500], ["finish"], ["clock", 1]]},
    # connection limit with one and two listeners
    {"cfg": {"connection_limit": 4, "channel_timeout": 120, "cleanup_interval": 30}, "ops": [["connect", 0]] * 6 + [["closes", 0], ["clock", 1], ["clock", 1]]},
    {"cfg": {"connection_limit": 6, "channel_timeout": 120, "cleanup_interval": 30}, "nlisten": 2,
     "ops": [["connect", 0], ["connect", 1]] * 4 + [["closes", 1], ["clock", 1], ["closes", 2], ["clock", 1]]},
    # a younger idle connection next to an older one that stays active
    {"cfg": {"connection_limit": 100, "channel_timeout": 2, "cleanup_interval": 1},
     "ops": [["connect", 0], ["send", 0, False], ["connect", 0], ["send", 1, False]] + [["clock", 1], ["send", 0, False]] * 8},
    {"cfg": {"connection_limit": 100, "channel_timeout": 2, "cleanup_interval": 1, "threads": 2},
     "ops": [["connect", 0], ["send", 0, True], ["connect", 0], ["send", 1, False], ["connect", 0]] + [["clock", 1]] * 8 + [["finish"], ["clock", 1]]},
    # a client that stops reading with output pending, then goes idle
    {"cfg": {"connection_limit": 100, "channel_timeout": 2, "cleanup_interval": 1}, "capacity": 60,
     "ops": [["connect", 0], ["stalls", 0], ["send", 0, False], ["clock", 5], ["clock", 5], ["clock", 5]]},
    # a streaming application whose client has stopped reading: busy, must never be reaped
    {"cfg": {"connection_limit": 100, "channel_timeout": 2, "cleanup_interval": 1}, "capacity": 60,
     "ops": [["connect", 0], ["stalls", 0], ["send", 0, 2], ["clock", 5], ["clock", 5], ["clock", 200], ["finish"], ["reads", 0], ["clock", 1]]},
    # an older connection whose client stopped reading (output pending) next to younger ones, idle or active: the older one goes, only it
    {"cfg": {"connection_limit": 100, "channel_timeout": 2, "cleanup_interval": 1}, "capacity": 60,
     "ops": [["connect", 0], ["connect", 0], ["connect", 0], ["stalls", 0], ["send", 0, False], ["send", 1, False], ["send", 2, True],
             ["clock", 1], ["send", 1, False], ["clock", 1], ["send", 1, False], ["clock", 1], ["send", 1, False], ["clock", 3], ["send", 1, False], ["clock", 3], ["finish"], ["clock", 1]]},
    {"cfg": {"connection_limit": 100, "channel_timeout": 2, "cleanup_interval": 1, "threads": 2}, "capacity": 60,
     "ops": [["connect", 0], ["connect", 0], ["stalls", 0], ["stalls", 1], ["send", 0, False], ["send", 1, 2], ["clock", 3], ["clock", 3], ["clock", 3], ["finish"], ["reads", 1], ["clock", 1]]},
    # the unread response is the last one of its connection (Connection: close / HTTP/1.0): the stalled client is reaped all the same
    {"cfg": {"connection_limit": 100, "channel_timeout": 2, "cleanup_interval": 1}, "capacity": 60,
     "ops": [["connect", 0], ["stalls", 0], ["send", 0, 3], ["clock", 3], ["clock", 3], ["clock", 3]]},
    {"cfg": {"connection_limit": 100, "channel_timeout": 2, "cleanup_interval": 1}, "capacity": 60,
     "ops": [["connect", 0], ["connect", 0], ["stalls", 1], ["send", 1, 4], ["send", 0, False], ["clock", 3], ["clock", 3], ["clock", 3]]},
    # idle connect-only and half-sent request
    {"cfg": {"connection_limit": 100, "channel_timeout": 2, "cleanup_interval": 1}, "ops": [["connect", 0], ["connect", 0], ["partial", 1], ["clock", 10], ["clock", 10]]},
]


# histories in which several workers finish at about the same time and a stalled, idle connection has to be reaped afterwards: run under
# sampled thread schedules (the reaping of such a connection travels through the wake-up pipe, i.e. depends on I/O-thread / worker timing)
SCHED_FIXED = [
    {"cfg": {"connection_limit": 100, "channel_timeout": 2, "cleanup_interval": 1, "threads": 2}, "capacity": 60,
     "ops": [["connect", 0], ["connect", 0], ["connect", 0], ["stalls", 2], ["send", 2, False], ["burst"], ["burst"], ["burst"], ["burst"],
             ["clock", 3], ["clock", 3], ["clock", 3]]},
    {"cfg": {"connection_limit": 5, "channel_timeout": 2, "cleanup_interval": 1, "threads": 2},
     "ops": [["connect", 0]] * 4 + [["burst"], ["burst"], ["clock", 3], ["clock", 3], ["connect", 0], ["burst"], ["clock", 1]]},
    {"cfg": {"connection_limit": 100, "channel_timeout": 2, "cleanup_interval": 1, "threads": 2}, "capacity": 60,
     "ops": [["connect", 0], ["connect", 0], ["send", 0, True], ["burst"], ["stalls", 1], ["burst"], ["clock", 3], ["clock", 3], ["finish"], ["burst"], ["clock", 3], ["clock", 3]]},
]


def short_histories():
    alpha = [["connect", 0], ["send", 0, False], ["send", 0, True], ["send", 1, True], ["closes", 0], ["finish"], ["clock", 3], ["clock", 200]]
    import itertools
    for n in (1, 2, 3, 4):
        for combo in itertools.product(range(len(alpha)), repeat=n):
            yield {"cfg": {"connection_limit": 4, "channel_timeout": 2, "cleanup_interval": 1}, "ops": [["connect", 0]] + [list(alpha[i]) for i in combo]}


def jobs(tier, seed):
    js = [{"kind": "fixed"}]
    for i in range(len(SCHED_FIXED)):
        js.append({"kind": "sched", "index": i, "n": 120 if tier == "quick" else 4000, "seed": derive_seed(seed, "c18s", i)})
    for sh in range(4):
        js.append({"kind": "short", "shard": sh, "nshards": 4})
    n = 450 if tier == "quick" else 6000
    for sh in range(11 if tier == "quick" else 16):
        js.append({"kind": "hyp", "n": n, "seed": derive_seed(seed, "c18", sh)})
    return js


def run_job(job, col):
    def one(case):
        try:
            fs, nt, labels = run_history(case)
        except C.CaseInvalid:
            col.labels["outside-domain"] += 1
            return
        col.record(case, fs, nontrivial=nt, labels=labels)

    if job["kind"] == "fixed":
        for c in FIXED + SCHED_FIXED:
            one(c)
    elif job["kind"] == "sched":
        cnt = [0]

        def ones(spec):
            cnt[0] += 1
            one(dict(SCHED_FIXED[job["index"]], schedule=spec, gran="line" if cnt[0] % 2 else "sync"))

        hyp_run(S.schedule_strategy(), ones, job["n"], job["seed"])
    elif job["kind"] == "short":
        for i, c in enumerate(short_histories()):
            if i % job["nshards"] == job["shard"]:
                one(c)
        col.exhaustive("all histories of <= 4 events over an 8-event alphabet after one connect (limit 4, timeout 2, cleanup 1)")
    else:
        hyp_run(case_strategy(), one, job["n"], job["seed"])
