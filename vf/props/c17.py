"""C17 - Buffers are faithful byte queues across all representation changes.

Generated histories of the operations the server issues on request-body and output
buffers are applied to the real OverflowableBuffer / ReadOnlyFileBasedBuffer and to a
reference bytes queue; every return value is compared after every step.
"""
import io
import itertools

from hypothesis import strategies as st

from .. import case as C
from ..runner import derive_seed, hyp_run

PID = "C17"
LEVEL = "exploration"
TECHNIQUE = ("model-based property testing: generated operation histories on the real buffers vs a "
             "reference bytes queue (bounded-exhaustive short histories + Hypothesis-generated long ones)")
RULE = ("case = (overflow threshold, history of append/peek/get/skip/len/file-view ops with sizes placed "
        "relative to the 8192-byte string limit and to the overflow threshold) or (read-only file buffer: "
        "file length, start offset, prepared size, seekable?, ops); enumerated exhaustively for histories "
        "<= bound over a fixed op alphabet, Hypothesis-generated beyond; non-trivial = the history crosses a "
        "representation change (bytes->BytesIO->tempfile) while read position > 0 and bytes remain queued, "
        "or (read-only) prepared size differs from file remainder / file is unseekable / start offset > 0; "
        "distinct by case hash")
ASSUMPTIONS = [
    "operations are those the server issues (append, get with/without skip, skip<=len, len, getfile view, close); prune() excluded per the property text",
    "tempfile.TemporaryFile behaves as a regular file",
]

STR = 8192
OVERFLOWS = [0, 1, 5, 8191, 8192, 8193, 20000]


def pattern(start, n):
    # position-dependent content so that loss / duplication / reordering is visible
    return bytes(((i * 131) ^ (i >> 8) * 7) & 0xFF for i in range(start, start + n))


_PAT = None


def pat(start, n):
    global _PAT
    if _PAT is None or len(_PAT) < start + n:
        _PAT = pattern(0, max(70000, 2 * (start + n)))
    return _PAT[start:start + n]


def rep_of(b):
    if b.buf is None:
        return "bytes"
    return "tempfile" if b.overflowed else "bytesio"


def run_ovb(case):
    from waitress.buffers import OverflowableBuffer

    overflow = case["overflow"]
    fails = []
    labels = set()
    nontrivial = False
    b = OverflowableBuffer(overflow)
    model = bytearray()
    appended = 0
    consumed_total = 0
    out = bytearray()

    def fail(rule, detail):
        fails.append({"sig": "C17/ovb/" + rule, "detail": "%s at step %d of %r" % (detail, i, case)})

    for i, op in enumerate(case["ops"]):
        kind = op[0]
        rep0 = rep_of(b)
        had_pos = consumed_total > 0 and len(model) > 0
        try:
            if kind in ("append", "append_rel"):
                if kind == "append":
                    n = op[1]
                else:
                    target = STR if op[1] == "str" else overflow
                    n = max(0, target - len(model) + op[2])
                n = min(n, 1 << 20)
                data = pat(appended, n)
                appended += n
                b.append(data)
                model += data
            elif kind == "peek":
                n = op[1]
                r = b.get(n, False)
                want = len(model) if n < 0 else min(n, len(model))
                if not (len(r) >= want and bytes(model[:len(r)]) == r):
                    fail("peek", "peek(%d) returned %d bytes, not a long-enough prefix of the %d queued"
                         % (n, len(r), len(model)))
            elif kind == "get":
                n = op[1]
                r = b.get(n, True)
                want = bytes(model) if n < 0 else bytes(model[:n])
                if r != want:
                    fail("get", "get(%d, skip) returned %d bytes, expected the next %d" % (n, len(r), len(want)))
                del model[:len(want)]
                consumed_total += len(want)
                out += r
            elif kind == "skip":
                n = min(op[1], len(model)) if op[1] >= 0 else len(model)
                b.skip(n, bool(op[2]))
                del model[:n]
                consumed_total += n
            elif kind == "file":
                f = b.getfile()
                pos = f.tell()
                k = op[1]
                r = f.read() if k < 0 else f.read(k)
                f.seek(pos)
                want = bytes(model) if k < 0 else bytes(model[:k])
                if r != want:
                    fail("fileview", "file view read %d bytes, expected %d" % (len(r), len(want)))
            elif kind == "len":
                pass
            else:
                raise C.CaseInvalid(kind)
        except C.CaseInvalid:
            raise
        except Exception as e:  # the queue operations the server issues never raise
            fail("raises/%s@%s" % (type(e).__name__, kind), repr(e))
            break
        if b.__len__() != len(model):
            fail("len", "len=%d but appended-consumed=%d after %r" % (b.__len__(), len(model), op))
            break
        if bool(b) != (len(model) > 0):
            fail("bool", "bool(buffer) wrong")
        rep1 = rep_of(b)
        if rep1 != rep0:
            labels.add("%s->%s" % (rep0, rep1))
            if had_pos or (consumed_total > 0 and len(model) > 0):
                nontrivial = True
                labels.add("migrate-with-readpos")
        if fails:
            break
    if not fails:
        # everything comes out exactly once, in order, unmodified
        try:
            rest = b.get(-1, True) if len(model) else b""
            if rest != bytes(model):
                i = len(case["ops"])
                fail("drain", "final drain returned %d bytes, expected %d" % (len(rest), len(model)))
            b.close()
        except Exception as e:
            i = len(case["ops"])
            fail("raises/%s@drain" % type(e).__name__, repr(e))
    else:
        try:
            b.close()
        except Exception:
            pass
    return fails, nontrivial, labels


class NoSeek:
    """file-like without seek/tell (e.g. a pipe)."""

    def __init__(self, data):
        self._f = io.BytesIO(data)
        self.closed_count = 0

    def read(self, n=-1):
        return self._f.read(n)

    def close(self):
        self.closed_count += 1


def run_rofb(case):
    from waitress.buffers import ReadOnlyFileBasedBuffer

    fails = []
    labels = set()
    L, start, size = case["file_len"], case["start"], case["prepare"]
    seekable = case["seekable"]
    if not (0 <= start <= L):
        raise C.CaseInvalid("start")
    content = pat(0, L)
    i = -1

    def fail(rule, detail):
        fails.append({"sig": "C17/rofb/" + rule, "detail": "%s at step %d of %r" % (detail, i, case)})

    if seekable:
        f = io.BytesIO(content)
        f.seek(start)
    else:
        f = NoSeek(content[start:])
    rb = ReadOnlyFileBasedBuffer(f, block_size=case.get("block_size", 32768))
    try:
        got = rb.prepare(size)
    except Exception as e:
        fail("raises/%s@prepare" % type(e).__name__, repr(e))
        return fails, True, labels
    if seekable:
        want = (L - start) if size is None else min(L - start, size)
        labels.add("seekable")
    else:
        want = 0
        labels.add("unseekable")
    if got != want or rb.__len__() != want:
        fail("prepare", "prepare(%r) -> %r / len %r, expected %r" % (size, got, rb.__len__(), want))
        return fails, True, labels
    nontrivial = (not seekable) or start > 0 or (size is not None and size != L - start)
    if seekable and f.tell() != start:
        fail("position", "prepare moved the file to %d (start %d)" % (f.tell(), start))
    model = bytearray(content[start:start + want])
    consumed = 0
    if want == 0:
        # the server iterates instead (task.py): blocks until EOF, in order
        if case.get("iterate", True):
            rest = content[start:]
            outb = b""
            try:
                n = 0
                for blk in rb:
                    n += 1
                    if not blk or len(blk) > rb.block_size:
                        fail("iter-block", "block of %d bytes with block_size %d" % (len(blk), rb.block_size))
                    outb += blk
                    if n > len(rest) + 2:
                        break
            except Exception as e:
                fail("raises/%s@iter" % type(e).__name__, repr(e))
            if outb != rest:
                fail("iter", "iteration produced %d bytes, file had %d" % (len(outb), len(rest)))
        return fails, nontrivial, labels
    for i, op in enumerate(case["ops"]):
        kind = op[0]
        try:
            if kind == "peek":
                n = op[1]
                r = rb.get(n, False)
                w = bytes(model) if n == -1 else bytes(model[:n])
                if r != w:
                    fail("peek", "peek(%d) returned %d bytes, expected %d (remain %d)" % (n, len(r), len(w), len(model)))
            elif kind == "get":
                n = op[1]
                r = rb.get(n, True)
                w = bytes(model) if n == -1 else bytes(model[:n])
                if r != w:
                    fail("get", "get(%d, skip) returned %d bytes, expected %d (remain %d)" % (n, len(r), len(w), len(model)))
                del model[:len(w)]
                consumed += len(w)
            elif kind == "skip":
                n = min(op[1], len(model))
                rb.skip(n, True)
                del model[:n]
                consumed += n
            elif kind == "len":
                pass
            else:
                raise C.CaseInvalid(kind)
        except C.CaseInvalid:
            raise
        except Exception as e:
            fail("raises/%s@%s" % (type(e).__name__, kind), repr(e))
            break
        if rb.__len__() != len(model):
            fail("len", "len=%d expected %d" % (rb.__len__(), len(model)))
            break
        if f.tell() != start + consumed:
            fail("position", "file at %d, expected start+consumed=%d" % (f.tell(), start + consumed))
            break
        if fails:
            break
    return fails, nontrivial, labels


def run_case_full(case):
    if case.get("kind") == "ovb":
        return run_ovb(case)
    if case.get("kind") == "rofb":
        return run_rofb(case)
    raise C.CaseInvalid("kind")


def run_case(case):
    return run_case_full(case)[0]


# ---------------------------------------------------------------- generation
def alphabet(overflow):
    A = [["append", 0], ["append", 1], ["append", 5]]
    A += [["append_rel", "str", d] for d in (-1, 0, 1)]
    A += [["append_rel", "ovf", d] for d in (-1, 0, 1)]
    A += [["peek", 1], ["peek", 8192]]
    A += [["get", 1], ["get", 5], ["get", 8192]]
    A += [["skip", 1, 1], ["skip", -1, 1]]
    A += [["file", -1]]
    return A


BIG = [262143, 262144, 262145, 524289]  # around the 256 KiB internal copy block


def big_alphabet():
    return [["append", 262145], ["append", 524289], ["append", 1], ["peek", 262145], ["peek", 600000], ["peek", -1],
            ["get", 262145], ["get", 1], ["skip", 262144, 1], ["file", 300000]]


def op_strategy():
    sizes = st.one_of(st.integers(0, 12), st.sampled_from([8190, 8191, 8192, 8193, 4096, 20000, 20001]),
                      st.integers(0, 30000), st.integers(0, 30000), st.sampled_from(BIG + [600000]))
    return st.one_of(
        st.tuples(st.just("append"), sizes),
        st.tuples(st.just("append_rel"), st.sampled_from(["str", "ovf"]), st.integers(-2, 2)),
        st.tuples(st.just("peek"), st.one_of(st.just(-1), sizes)),
        st.tuples(st.just("get"), st.one_of(st.just(-1), sizes)),
        st.tuples(st.just("skip"), st.one_of(st.just(-1), sizes), st.integers(0, 1)),
        st.tuples(st.just("file"), st.one_of(st.just(-1), sizes)),
        st.tuples(st.just("len")),
    ).map(list)


def ovb_strategy():
    return st.fixed_dictionaries({
        "kind": st.just("ovb"),
        "overflow": st.one_of(st.sampled_from(OVERFLOWS), st.integers(0, 25000)),
        "ops": st.lists(op_strategy(), min_size=1, max_size=60),
    })


def rofb_strategy():
    def build(L, seekable, frac, prep_kind, prep_delta, bs, ops):
        start = (L * frac) // 100
        rem = L - start
        if prep_kind == "none":
            size = None
        elif prep_kind == "rel":
            size = max(0, rem + prep_delta)
        else:
            size = prep_delta + 3
        return {"kind": "rofb", "file_len": L, "start": start, "seekable": seekable, "prepare": size,
                "block_size": bs, "ops": ops}

    n = st.one_of(st.just(-1), st.integers(1, 20), st.sampled_from([8192, 32768, 100000]))
    ops = st.lists(st.one_of(st.tuples(st.just("peek"), n), st.tuples(st.just("get"), n),
                             st.tuples(st.just("skip"), st.integers(0, 9000)), st.tuples(st.just("len"))).map(list),
                   max_size=12)
    return st.builds(build, st.one_of(st.integers(0, 40), st.integers(0, 70000)), st.booleans(),
                     st.integers(0, 100), st.sampled_from(["none", "rel", "abs"]), st.integers(-3, 3),
                     st.sampled_from([1, 7, 4096, 32768]), ops)


def jobs(tier, seed):
    js = []
    depth = 4 if tier == "quick" else 5
    nsh = 16 if tier == "quick" else 64
    for ov in OVERFLOWS:
        for sh in range(nsh if tier == "thorough" else 3):
            js.append({"kind": "enum", "overflow": ov, "depth": depth, "shard": sh,
                       "nshards": nsh if tier == "thorough" else 3})
    js.append({"kind": "rofb_enum"})
    for ov in (100, 300000, 1048576):
        js.append({"kind": "big_enum", "overflow": ov, "depth": 3 if tier == "quick" else 4})
    n_hyp = 1500 if tier == "quick" else 15000
    for sh in range(16):
        js.append({"kind": "hyp", "which": "ovb", "n": n_hyp, "seed": derive_seed(seed, "ovb", sh)})
    for sh in range(4):
        js.append({"kind": "hyp", "which": "rofb", "n": n_hyp * 2, "seed": derive_seed(seed, "rofb", sh)})
    return js


def run_job(job, col):
    def one(case):
        fs, nt, labels = run_case_full(case)
        col.record(case, fs, nontrivial=nt, labels=labels)

    if job["kind"] == "enum":
        A = alphabet(job["overflow"])
        idx = 0
        for d in range(1, job["depth"] + 1):
            for ops in itertools.product(A, repeat=d):
                idx += 1
                if idx % job["nshards"] != job["shard"]:
                    continue
                one({"kind": "ovb", "overflow": job["overflow"], "ops": [list(o) for o in ops]})
        col.exhaustive("all op histories of length <= %d over a %d-op alphabet, overflow in %r"
                       % (job["depth"], len(A), OVERFLOWS))
    elif job["kind"] == "big_enum":
        A = big_alphabet()
        for d in range(1, job["depth"] + 1):
            for ops in itertools.product(A, repeat=d):
                one({"kind": "ovb", "overflow": job["overflow"], "ops": [list(o) for o in ops]})
        col.exhaustive("all op histories of length <= %d over a %d-op alphabet with sizes around the 256 KiB copy block"
                       % (job["depth"], len(A)))
    elif job["kind"] == "rofb_enum":
        for L in (0, 1, 2, 5):
            for start in range(0, L + 1):
                for seekable in (True, False):
                    for size in (None, 0, 1, 2, 4, 5, 6):
                        for o1 in (["peek", 1], ["peek", -1], ["get", 1], ["get", 3], ["get", -1], ["skip", 1]):
                            for o2 in (["peek", 8192], ["get", 2], ["get", -1], ["skip", 2], ["len"]):
                                one({"kind": "rofb", "file_len": L, "start": start, "seekable": seekable,
                                     "prepare": size, "block_size": 2, "ops": [o1, o2]})
        col.exhaustive("read-only buffer: file_len in {0,1,2,5} x start x prepare in {None,0..6} x 2 ops")
    elif job["kind"] == "hyp":
        strat = ovb_strategy() if job["which"] == "ovb" else rofb_strategy()
        hyp_run(strat, one, job["n"], job["seed"])
