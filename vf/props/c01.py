"""C01 - Request framing is unambiguous and agrees with RFC 9112.

Differential: byte streams (grammar sentences, positional mutations, generated pipelines) are fed
to the real channel/parser/task stack in the single-thread world and to the independent
reference parser (vf.refhttp.request); the application calls and server responses are compared
with the reference's verdict per message (VALID / MUST_REFUSE / GRAY / INCOMPLETE).
"""
from hypothesis import strategies as st

from .. import case as C
from ..case import b2s, s2b
from ..gen import http as G
from ..refhttp import request as REQ
from ..runner import derive_seed, hyp_run
from ..world import observe, adj_default

PID = "C01"
LEVEL = "exploration"
TECHNIQUE = ("differential property testing against an independent RFC 9112 reference parser: enumerated "
             "single-token mutation table over base sentences + Hypothesis grammar-generated pipelines, "
             "run end-to-end through the real channel/parser/task in a simulated socket world")
RULE = ("case = (byte stream, adjustments); streams are grammar sentences of HTTP/1.x (0..4 pipelined messages, "
        "CL/chunked/no body, trailers, chunk-ext, obs-fold, 3 target forms) with 0..2 single-token mutations from a "
        "position x mutation table, each followed by a valid follower request; non-trivial = the reference sees a "
        "body-bearing message, >=2 messages, or a message that is not VALID; distinct by case hash")
ASSUMPTIONS = [
    "the reference parser (vf/refhttp/request.py) is the RFC 9112 oracle; verdict classes fixed in DESIGN.md section 2 (E1)",
    "supported subset per waitress docs/tests: upper-case methods, HTTP/1.0 and 1.1, exactly one final 'chunked'",
    "single-thread world: arrival schedule = segmentation only (schedules are C04/C11's business)",
]

ERR = (400, 413, 431, 501)


def expected_env(it):
    """CGI image of the header fields (documented mapping), for VALID messages."""
    env = {}
    for name, value in it.fields:
        n = b2s(name)
        if "_" in n:
            continue
        key = n.upper().replace("-", "_")
        v = b2s(value)
        if key in env:
            env[key] = env[key] + ", " + v
        else:
            env[key] = v
    if it.framing == "chunked":
        env.pop("TRANSFER_ENCODING", None)
        env["CONTENT_LENGTH"] = str(len(it.body))
    out = {}
    for k, v in env.items():
        if k in PROXY:
            continue  # default configuration clears untrusted proxy headers (C15's business)
        out[k if k in ("CONTENT_LENGTH", "CONTENT_TYPE") else "HTTP_" + k] = v
    return out


PROXY = ("FORWARDED", "X_FORWARDED_FOR", "X_FORWARDED_HOST", "X_FORWARDED_PROTO", "X_FORWARDED_PORT", "X_FORWARDED_BY")


def ws_norm(s):
    return " ".join(s.replace("\t", " ").split())


def is_app_response(r):
    return bool(r.get(b"x-call"))


def compare(items, o, adj):
    """returns list of failures (sig, detail)"""
    fails = []

    def fail(sig, detail):
        fails.append({"sig": "C01/" + sig, "detail": detail})

    max_h = adj.get("max_request_header_size", adj_default("max_request_header_size"))
    max_b = adj.get("max_request_body_size", adj_default("max_request_body_size"))
    finals = [r for r in o.responses if not r.interim]
    if o.problem and not (finals and not finals[-1].complete and o.closed):
        # unparseable wire is C03's business, but it makes this comparison meaningless
        fail("wire-unparseable", "%s" % o.problem)
        return fails
    app_resps = [r for r in finals if is_app_response(r)]
    if len(app_resps) != len(o.calls):
        fail("calls-vs-responses", "%d application calls but %d application responses" % (len(o.calls), len(app_resps)))
        return fails
    ri = 0
    ended = False
    for k, it in enumerate(items):
        r = finals[ri] if ri < len(finals) else None
        head_total = (it.head_end - it.start) if it.head_end else None
        head_strict = (it.head_end - it.msg_start) if it.head_end else None
        near_hdr = head_total is not None and head_total >= max_h
        must_431 = head_strict is not None and head_strict >= max_h
        body_len = len(it.body)
        near_body = (it.framing == "cl" and False) or (it.chunk_wire_len >= max_b) or body_len >= max_b
        if it.verdict == REQ.INCOMPLETE:
            if r is not None and is_app_response(r):
                fail("delivered-incomplete", "message %d is incomplete in the stream (%s) but was delivered" % (k, it.incomplete_in))
            elif r is not None and r.status not in ERR:
                fail("bad-error-status", "status %d" % r.status)
            elif r is not None and ri != len(finals) - 1:
                fail("response-after-error", "responses after the error response")
            ended = True
            ri += 1 if r is not None else 0
            break
        if it.verdict == REQ.MUST_REFUSE:
            if r is None:
                fail("refusal-missing/" + it.cls, "message %d must be refused (%s) but no error response was sent (closed=%s)" % (k, it.cls, o.closed))
            elif is_app_response(r):
                fail("delivered-must-refuse/" + it.cls, "message %d (%s) was delivered to the application: call %r" % (
                    k, it.cls, _call_brief(o, r)))
            else:
                if r.status not in ERR:
                    fail("bad-error-status", "status %d for refused message" % r.status)
                if ri != len(finals) - 1:
                    fail("served-after-refusal/" + it.cls, "%d more responses after the refusal" % (len(finals) - 1 - ri))
                if not o.closed:
                    fail("not-closed-after-refusal/" + it.cls, "connection left open after refusing message %d" % k)
            ended = True
            ri += 1 if r is not None else 0
            break
        # VALID or GRAY
        if r is None:
            if it.verdict == REQ.VALID and not near_hdr and not near_body:
                fail("valid-not-delivered", "message %d is valid and complete but got no response (closed=%s)" % (k, o.closed))
            elif it.verdict == REQ.GRAY and not it.body_unchecked and not near_hdr and not near_body:
                fail("gray-no-response/" + str(it.cls), "message %d (%s) was neither delivered nor refused" % (k, it.cls))
            ended = True
            break
        if not is_app_response(r):
            if r.status not in ERR:
                fail("bad-error-status", "status %d" % r.status)
            acceptable = it.verdict == REQ.GRAY or (near_hdr and r.status == 431) or (near_body and r.status == 413) \
                or (it.framing == "cl" and body_len >= max_b and r.status == 413)
            if not acceptable:
                fail("valid-refused", "message %d is valid (%r %r) but was refused with %d" % (k, it.method, it.target, r.status))
            if ri != len(finals) - 1:
                fail("served-after-refusal/other", "responses after an error response")
            if not o.closed:
                fail("not-closed-after-refusal/other", "connection left open after an error response")
            ended = True
            ri += 1
            break
        # delivered: compare content
        call = o.calls[int(r.get(b"x-call")[0])]
        if must_431:
            fail("delivered-over-header-limit", "head of %d bytes >= limit %d delivered" % (head_strict, max_h))
        if body_len >= max_b:
            fail("delivered-over-body-limit", "body of %d bytes >= limit %d delivered" % (body_len, max_b))
        if it.verdict == REQ.VALID and call["method"] != b2s(it.method):
            fail("delivered-differs/method", "method %r vs reference %r" % (call["method"], it.method))
        if it.target is not None:
            if call["uri"] != b2s(it.target):
                fail("delivered-differs/target", "target %r vs reference %r" % (call["uri"], it.target))
        if not it.body_unchecked and call["body"] != it.body:
            sig = "delivered-differs/body"
            if it.verdict == REQ.GRAY:
                sig += "/gray:" + str(it.cls)
            fail(sig, "message %d: application read %d body bytes %r..., reference framing (%s) gives %d bytes %r..." % (
                k, len(call["body"]), call["body"][:40], it.framing, len(it.body), it.body[:40]))
        if it.verdict == REQ.VALID:
            if call["proto"] != "HTTP/" + b2s(it.version):
                fail("delivered-differs/version", "%r vs %r" % (call["proto"], it.version))
            want = expected_env(it)
            got = {kk: vv for kk, vv in call["environ"].items()
                   if (kk.startswith("HTTP_") and kk[5:] not in PROXY) or kk in ("CONTENT_LENGTH", "CONTENT_TYPE")}
            if it.has_obs_fold:
                want = {a: ws_norm(b) for a, b in want.items()}
                got = {a: ws_norm(b) for a, b in got.items()}
            if want != got:
                diff = sorted(set(want.items()) ^ set(got.items()))[:4]
                fail("delivered-differs/fields", "message %d header image differs: %r" % (k, diff))
        last = ri == len(finals) - 1
        if it.must_close:
            if not last:
                fail("served-after-must-close/" + str(it.cls if it.verdict == REQ.GRAY else "cl+te"),
                     "message %d had %s; RFC 9112 requires closing after it, but %d more response(s) followed" % (
                         k, it.notes or "CL+TE", len(finals) - 1 - ri))
                ended = True
                ri = len(finals)
                break
            if not o.closed:
                fail("not-closed-after-must-close", "connection left open after message %d (%s)" % (k, it.notes or "CL+TE"))
            ended = True
            ri += 1
            break
        ri += 1
        if last and o.closed:
            ended = True
            break
    if items and items[-1].framing == "unknown":
        return fails  # what follows a message of unknowable framing is not judged
    if len(items) >= REQ.MAX_ITEMS:
        return fails  # the reference stops after MAX_ITEMS messages: what follows is not judged
    if ri < len(finals) and not fails:
        fail("extra-response", "%d response(s) beyond the %d messages of the reference" % (len(finals) - ri, len(items)))
    return fails


def _call_brief(o, r):
    try:
        c = o.calls[int(r.get(b"x-call")[0])]
        return (c["method"], c["uri"], c["body"][:30])
    except Exception:
        return None


def run_case_full(case):
    stream = s2b(case["stream"])
    adj = dict(case.get("adj") or {})
    segs = [s2b(x) for x in G.split_at(case["stream"], case.get("cuts") or [])]
    items = REQ.parse_stream(stream)
    o = observe(segs, adj=adj, eof=True)
    o.reparse_tolerant([it.method or it.lex_method for it in items])
    fails = compare(items, o, adj)
    labels = set()
    nontrivial = len(items) >= 2
    for it in items:
        labels.add("%s:%s" % (it.verdict, it.cls) if it.cls else it.verdict)
        labels.add("framing:" + it.framing)
        if it.verdict != REQ.VALID or it.framing != "none":
            nontrivial = True
    labels.add("msgs:%d" % min(len(items), 4))
    labels.add("calls:%d" % min(len(o.calls), 4))
    return fails, nontrivial, labels


def run_case(case):
    if not isinstance(case.get("stream"), str):
        raise C.CaseInvalid("stream")
    for k_, lo in (("recv_bytes", 1), ("max_request_body_size", 1), ("max_request_header_size", 1), ("inbuf_overflow", 1)):
        v_ = (case.get("adj") or {}).get(k_)
        if v_ is not None and (not isinstance(v_, int) or v_ < lo):
            raise C.CaseInvalid(k_)
    try:
        s2b(case["stream"])
    except UnicodeEncodeError:
        raise C.CaseInvalid("non latin-1")
    return run_case_full(case)[0]


# ------------------------------------------------------------------ generation
ADJ_CHOICES = [
    {}, {}, {}, {"recv_bytes": 1}, {"recv_bytes": 7}, {"inbuf_overflow": 16}, {"max_request_header_size": 256},
    {"max_request_body_size": 1024}, {"max_request_body_size": 16, "max_request_header_size": 64},
    {"channel_request_lookahead": 2},
]


def case_strategy():
    def build(stream, adj, follower):
        if len(stream) > 1500 and adj.get("recv_bytes", adj_default("recv_bytes")) < 64:
            adj = dict(adj, recv_bytes=64)
        return {"stream": stream + (G.FOLLOWER if follower else ""), "adj": adj}

    return st.builds(build, G.stream(max_msgs=4, p_mut=0.55), st.sampled_from(ADJ_CHOICES), st.booleans())


JUNK_BEFORE = ["\r", "\n", "\r\r\n", "\r\n\r", "\n\r\n", "\r\n\n", "\r\n\r\n\r", " ", "\t", "\r\n ", "\x00", "\r\n\r\n"]


def table_cases():
    # Transfer-Encoding on a request that is not HTTP/1.1 (any other version, or none): the connection is closed after that one message
    for ver in (" HTTP/1.0", " HTTP/1.2", " HTTP/2.0", " HTTP/0.9", " HTTP/1.1", ""):
        for te in ("Transfer-Encoding: chunked\r\n", "Transfer-Encoding: gzip\r\n", "transfer-encoding:chunked\r\nContent-Length: 5\r\n", "Content-Length: 5\r\nTransfer-Encoding: chunked\r\n"):
            for conn in ("Connection: keep-alive\r\n", "Connection: Keep-Alive\r\n", ""):
                for body in ("5\r\nhello\r\n0\r\n\r\n", "hello", ""):
                    yield {"stream": "POST /te" + ver + "\r\nHost: h\r\n" + conn + te + "\r\n" + body + G.FOLLOWER, "adj": {}}
    for bi, base in enumerate(G.base_sentences()):
        yield {"stream": G.render(base) + G.FOLLOWER, "adj": {}}
        # bytes in front of a request line: of the first message and of one pipelined behind a complete message
        for junk in JUNK_BEFORE:
            yield {"stream": junk + G.render(base) + G.FOLLOWER, "adj": {}}
            yield {"stream": G.render(base) + junk + G.FOLLOWER, "adj": {}}
        for m in G.mutation_sites(base):
            yield {"stream": G.render(G.apply_mutation(base, m)) + G.FOLLOWER, "adj": {}}


def pair_cases(shard, nshards):
    i = 0
    for bi, base in enumerate(G.base_sentences()):
        sites = [m for m in G.mutation_sites(base) if m[0] == "tok" and base[m[1]][0] in
                 ("clnum", "csize", "tevalue", "cext", "cend", "ccrlf", "tline", "tcrlf", "endhead", "endtrailer", "fname", "colon")]
        for a in range(len(sites)):
            for b in range(a + 1, len(sites)):
                if sites[a][1] == sites[b][1]:
                    continue
                i += 1
                if i % nshards != shard:
                    continue
                t = G.apply_mutation(G.apply_mutation(base, sites[a]), sites[b])
                yield {"stream": G.render(t) + G.FOLLOWER, "adj": {}}


def fuzz_jobs(tier, seed, tag):
    # coverage-guided campaigns (atheris): seeded corpus + dictionary, and an empty-corpus one
    if tier == "quick":
        return [{"kind": "fuzz", "runs": 4000, "seed": derive_seed(seed, tag, "fz", 0)}]
    return [{"kind": "fuzz", "runs": 300000, "seed": derive_seed(seed, tag, "fz", i), "seed_corpus": i % 4 != 3, "max_total_time": 600} for i in range(16)]


def jobs(tier, seed):
    js = [{"kind": "table", "shard": s, "nshards": 8} for s in range(8)]
    n = 1400 if tier == "quick" else 40000
    for sh in range(16):
        js.append({"kind": "hyp", "n": n, "seed": derive_seed(seed, "c01", sh)})
    if tier == "thorough":
        for s in range(32):
            js.append({"kind": "pairs", "shard": s, "nshards": 32})
    js += fuzz_jobs(tier, seed, "c01")
    return js


def run_job(job, col):
    if job["kind"] == "fuzz":
        from ..fuzz import run_fuzz_job
        return run_fuzz_job(job, col, PID)
    def one(case):
        fs, nt, labels = run_case_full(case)
        col.record(case, fs, nontrivial=nt, labels=labels)

    if job["kind"] == "table":
        for i, case in enumerate(table_cases()):
            if i % job["nshards"] == job["shard"]:
                one(case)
        col.exhaustive("every single-token mutation (position x mutator table, line inserts, line duplications) of 6 base sentences")
    elif job["kind"] == "pairs":
        for case in pair_cases(job["shard"], job["nshards"]):
            one(case)
        col.exhaustive("every pair of framing-position mutations of 6 base sentences")
    elif job["kind"] == "hyp":
        hyp_run(case_strategy(), one, job["n"], job["seed"])
