"""C20 - Configuration is validated, and CLI and keyword forms are equivalent.

Exhaustive subset lattices of the mutually exclusive option groups against an explicit rule;
every adjustment with representative values in keyword and both CLI spellings (attribute-wise
equality of the resulting Adjustments); option tables of docs/arguments.rst and runner.HELP
against the implemented list.
"""
import itertools
import os
import re
import socket
import warnings

from hypothesis import strategies as st

from .. import case as C
from ..runner import derive_seed, hyp_run, repo_src

PID = "C20"
LEVEL = "exploration"
TECHNIQUE = ("exhaustive enumeration of the exclusive-option subset lattices against an explicit refusal rule; "
             "differential CLI-vs-keyword testing of every adjustment (all boolean spellings, ints, octal, lists, empty "
             "values, both CLI spellings) incl. generated multi-option command lines; doc/help option tables vs _params")
RULE = ("case = a keyword dict (subset of exclusive bind options / proxy options / socket lists), or (option, value, "
        "spelling) for the CLI-vs-keyword comparison, or a doc table check; all 2^5 bind subsets and all proxy-group "
        "subsets are enumerated; non-trivial = subset of size >= 2, or a non-default value; distinct by case hash")
ASSUMPTIONS = [
    "clear_untrusted_proxy_headers / log_untrusted_proxy_headers without trusted_proxy are not treated as 'must refuse' (the docs contradict themselves: the default is True)",
    "'sockets' has no command-line form (socket objects cannot be written on a command line)",
    "listen/host values are numeric addresses (no name resolution offline)",
]
KINDS = ["forwarded", "x-forwarded-for", "x-forwarded-host", "x-forwarded-proto", "x-forwarded-port", "x-forwarded-by"]
BIND_GROUP = {"listen": "listen", "host": "hostport", "port": "hostport", "sockets": "sockets", "unix_socket": "unix"}
_socks = []


def mk_sock(kind):
    fam, typ = {"inet": (socket.AF_INET, socket.SOCK_STREAM), "inet6": (socket.AF_INET6, socket.SOCK_STREAM),
                "unix": (socket.AF_UNIX, socket.SOCK_STREAM), "udp": (socket.AF_INET, socket.SOCK_DGRAM),
                "unixdgram": (socket.AF_UNIX, socket.SOCK_DGRAM), "seqpacket": (socket.AF_UNIX, socket.SOCK_SEQPACKET),
                "udp6": (socket.AF_INET6, socket.SOCK_DGRAM)}[kind]
    s = socket.socket(fam, typ)
    _socks.append(s)
    return s


def close_socks():
    while _socks:
        try:
            _socks.pop().close()
        except Exception:
            pass


def build_kw(case_kw):
    kw = {}
    for k, v in case_kw.items():
        if k == "sockets":
            kw[k] = [mk_sock(x) for x in v]
        else:
            kw[k] = v
    return kw


def try_adj(kw):
    from waitress.adjustments import Adjustments
    with warnings.catch_warnings():
        warnings.simplefilter("ignore")
        try:
            return Adjustments(**kw), None
        except ValueError as e:
            return None, "ValueError: %s" % str(e)[:100]
        except Exception as e:
            return None, "%s: %s" % (type(e).__name__, str(e)[:100])


def snapshot(adj):
    from waitress.adjustments import Adjustments
    out = {}
    for name, _cast in Adjustments._params:
        v = getattr(adj, name)
        if name == "sockets":
            v = len(v)
        elif isinstance(v, (set, frozenset)):
            v = sorted(v)
        out[name] = repr(v) if not isinstance(v, (int, str, bool, list, type(None))) else v
    return out


# ---------------------------------------------------------------- (a) refusal rule
def must_refuse(kw):
    """explicit statement of the documented exclusions; returns a reason or None"""
    from waitress.adjustments import Adjustments
    names = set(n for n, _c in Adjustments._params)
    for k in kw:
        if k not in names:
            return "unknown-option"
    groups = set(BIND_GROUP[k] for k in kw if k in BIND_GROUP)
    if len(groups) > 1:
        return "exclusive-bind-options"
    tp = kw.get("trusted_proxy")
    tp_set = tp is not None and str(tp) != "" and tp
    if kw.get("trusted_proxy_count") is not None and not tp_set:
        return "count-without-trusted_proxy"
    tph = kw.get("trusted_proxy_headers")
    if tph:
        hs = set(h.lower() for h in (tph.split() if isinstance(tph, str) else tph))
        if hs and not tp_set:
            return "headers-without-trusted_proxy"
        if hs - set(KINDS):
            return "unknown-header-kind"
        if "forwarded" in hs and len(hs) > 1:
            return "forwarded-mixed-with-x-forwarded"
    if "sockets" in kw:
        kinds = kw["sockets"]
        if any(k in ("udp", "unixdgram", "seqpacket", "udp6") for k in kinds):
            return "unsupported-socket-type"
        if any(k in ("inet", "inet6") for k in kinds) and "unix" in kinds:
            return "mixed-inet-unix-sockets"
    return None


def check_kw(case_kw):
    fails = []
    try:
        kw = build_kw(case_kw)
        adj, err = try_adj(kw)
    finally:
        close_socks()
    reason = must_refuse(case_kw)
    if err and not err.startswith("ValueError"):
        fails.append({"sig": "C20/raises/" + err.split(":")[0], "detail": "%r -> %s" % (case_kw, err)})
    elif reason and adj is not None:
        fails.append({"sig": "C20/accepted/" + reason, "detail": "%r must be refused (%s) but was accepted: listen=%r" % (case_kw, reason, getattr(adj, "listen", None))})
    elif not reason and adj is None:
        fails.append({"sig": "C20/refused-valid", "detail": "%r is a documented combination but was refused: %s" % (case_kw, err)})
    elif adj is not None:
        # applied exactly: every given simple value is what the attribute holds
        snap = snapshot(adj)
        for k, v in case_kw.items():
            if k in ("port", "threads", "trusted_proxy_count") and snap[k] != int(v):
                fails.append({"sig": "C20/not-applied/" + k, "detail": "%s=%r but attribute is %r" % (k, v, snap[k])})
            if k in ("host", "unix_socket", "trusted_proxy", "server_name", "url_scheme") and v and snap[k] != v:
                fails.append({"sig": "C20/not-applied/" + k, "detail": "%s=%r but attribute is %r" % (k, v, snap[k])})
        if "listen" in case_kw and [str(x[3][1]) for x in adj.listen] != [p.rsplit(":", 1)[1] for p in case_kw["listen"].split()]:
            fails.append({"sig": "C20/not-applied/listen", "detail": "listen=%r resolved to %r" % (case_kw["listen"], adj.listen)})
        if "port" in case_kw and "listen" not in case_kw and "sockets" not in case_kw and "unix_socket" not in case_kw:
            if [x[3][1] for x in adj.listen] != [int(case_kw["port"])] * len(adj.listen):
                fails.append({"sig": "C20/not-applied/port", "detail": "port=%r but listen is %r" % (case_kw["port"], adj.listen)})
    return fails


# ---------------------------------------------------------------- (b) CLI == keyword
def parse_cli(argv):
    from waitress.adjustments import Adjustments
    with warnings.catch_warnings():
        warnings.simplefilter("ignore")
        try:
            kw = Adjustments.parse_args(list(argv) + ["os:getcwd"])
        except Exception as e:
            return None, "%s: %s" % (type(e).__name__, str(e)[:80])
    kw.pop("help", None)
    kw.pop("app", None)
    return kw, None


def check_pair(argv, kwform):
    """Adjustments(**parse_args(argv)) must equal Adjustments(**kwform) attribute-wise (or both refuse)"""
    fails = []
    ckw, perr = parse_cli(argv)
    a1 = e1 = None
    if ckw is not None:
        a1, e1 = try_adj(ckw)
    else:
        e1 = perr
    a2, e2 = try_adj(dict(kwform))
    if (a1 is None) != (a2 is None):
        fails.append({"sig": "C20/cli-vs-keyword/accept-differs", "detail": "argv %r -> %s ; keyword %r -> %s" % (
            argv, "accepted" if a1 is not None else e1, kwform, "accepted" if a2 is not None else e2)})
    elif a1 is not None:
        s1, s2 = snapshot(a1), snapshot(a2)
        for k in s1:
            if s1[k] != s2[k]:
                fails.append({"sig": "C20/cli-vs-keyword/" + k, "detail": "argv %r gives %s=%r, keyword form %r gives %r" % (argv, k, s1[k], kwform, s2[k])})
    return fails


TRUTHY = ["t", "true", "y", "yes", "on", "1"]
FALSY = ["f", "false", "n", "no", "off", "0", "", "2", "tru", "yess", "none"]
VALUES = {
    "int": ["0", "1", "7", "8081", "65535"],
    "str": ["x", "example.org", "a b", "", "https"],
    "octal": ["600", "644", "0", "777"],
    "list": ["127.0.0.1:8080", "127.0.0.1:8080 127.0.0.1:8081", "127.0.0.1:8080\n127.0.0.1:8082", " 127.0.0.1:9000  "],
    "set": ["x-forwarded-for", "x-forwarded-for x-forwarded-host", "x-forwarded-proto\nx-forwarded-port", "forwarded", "FORWARDED", "bogus"],
}


def cast_kind(cast):
    n = getattr(cast, "__name__", str(cast))
    return {"int": "int", "asbool": "bool", "asoctal": "octal", "aslist": "list", "asset": "set", "as_socket_list": "sockets"}.get(n, "str")


def param_cases():
    """(name, argv, keyword-form) triples"""
    from waitress.adjustments import Adjustments
    for name, cast in Adjustments._params:
        opt = "--" + name.replace("_", "-")
        kind = cast_kind(cast)
        extra_cli, extra_kw = [], {}
        if name in ("trusted_proxy_count", "trusted_proxy_headers", "log_untrusted_proxy_headers"):
            extra_cli, extra_kw = ["--trusted-proxy=10.0.0.1"], {"trusted_proxy": "10.0.0.1"}
        if kind == "sockets":
            continue
        if kind == "bool":
            yield name, extra_cli + [opt], dict(extra_kw, **{name: True})
            yield name, extra_cli + ["--no-" + name.replace("_", "-")], dict(extra_kw, **{name: False})
            for sp in TRUTHY:
                for variant in (sp, sp.upper(), sp.title(), " " + sp + " "):
                    yield name, extra_cli + [opt], dict(extra_kw, **{name: variant})
            for sp in FALSY:
                for variant in (sp, sp.upper()):
                    yield name, extra_cli + ["--no-" + name.replace("_", "-")], dict(extra_kw, **{name: variant})
            yield name, extra_cli + ["--no-" + name.replace("_", "-")], dict(extra_kw, **{name: None})
            continue
        for v in VALUES[kind]:
            kwv = v
            yield name, extra_cli + [opt + "=" + v], dict(extra_kw, **{name: kwv})
            yield name, extra_cli + [opt, v], dict(extra_kw, **{name: kwv})
            if kind == "int":
                yield name, extra_cli + [opt + "=" + v], dict(extra_kw, **{name: int(v)})
            if kind == "octal":
                pass
        if name == "listen":
            yield name, ["--listen=127.0.0.1:8080", "--listen=127.0.0.1:8081"], {"listen": "127.0.0.1:8080 127.0.0.1:8081"}
            yield name, ["--listen", "127.0.0.1:1", "--listen=127.0.0.1:2", "--listen=127.0.0.1:3"], {"listen": "127.0.0.1:1 127.0.0.1:2 127.0.0.1:3"}
    # unknown names are refused in both forms
    yield "unknown", ["--no-such-option=1"], {"no_such_option": "1"}
    yield "unknown", ["--no-such-flag"], {"such_flag": False}
    yield "unknown", ["--hostt=x"], {"hostt": "x"}


# ---------------------------------------------------------------- (c) documentation
def doc_names():
    root = os.path.dirname(repo_src())
    txt = open(os.path.join(root, "docs", "arguments.rst")).read()
    return [m.group(1) for m in re.finditer(r"^([a-z][a-z0-9_]*)\n {2,}\S", txt, re.M)]


def help_options():
    from waitress import runner
    return sorted(set(m.group(1) for m in re.finditer(r"^\s{4}--(?:\[no-\])?([a-z][a-z0-9-]*)", runner.HELP, re.M)))


def check_docs():
    from waitress.adjustments import Adjustments
    fails = []
    params = [n for n, _c in Adjustments._params]
    docs = doc_names()
    for n in sorted(set(params) - set(docs)):
        fails.append({"sig": "C20/docs/undocumented/" + n, "detail": "adjustment %s is not documented in docs/arguments.rst" % n})
    for n in sorted(set(docs) - set(params)):
        fails.append({"sig": "C20/docs/documented-but-unknown/" + n, "detail": "docs/arguments.rst documents %s which Adjustments does not know" % n})
    hopts = help_options()
    cli_names = set(n.replace("_", "-") for n in params if n != "sockets") | {"help", "call", "app"}
    for o in hopts:
        if o not in cli_names:
            fails.append({"sig": "C20/help/unknown-option/" + o, "detail": "runner.HELP lists --%s which the CLI pre-parser does not accept" % o})
    for n in sorted(cli_names - set(hopts)):
        fails.append({"sig": "C20/help/missing-option/" + n, "detail": "--%s is accepted by the CLI but missing from runner.HELP" % n})
    return fails, len(params) + len(docs) + len(hopts)


# ---------------------------------------------------------------- case plumbing
def run_case(case):
    k = case.get("kind")
    if k == "kw":
        return check_kw(case["kw"])
    if k == "pair":
        return check_pair(case["argv"], case["kwform"])
    if k == "docs":
        return check_docs()[0]
    if k == "listen":
        return check_listen(case.get("entries"), case.get("form", "kw"))
    raise C.CaseInvalid("kind")


LISTEN_ENTRIES = ["127.0.0.1:9090", "127.0.0.1", "127.0.0.2:8081", "127.0.0.2", "127.0.0.1:8080", "127.0.0.3:65535"]


def check_listen(entries, form):
    """the listen option is a list of independent entries: Adjustments(listen="A B") binds exactly what listen="A" and listen="B"
    bind, in that order (the meaning of an entry must not depend on its neighbours); the CLI form repeats --listen"""
    if not isinstance(entries, list) or not (1 <= len(entries) <= 4) or any(e not in LISTEN_ENTRIES for e in entries) or form not in ("kw", "cli"):
        raise C.CaseInvalid("listen")
    fails = []

    def pairs(adj):
        return [(x[3][0], x[3][1]) for x in adj.listen]

    try:
        if form == "kw":
            whole, err = try_adj({"listen": " ".join(entries)})
        else:
            kw, err = parse_cli(["--listen=" + e for e in entries])
            whole, err = try_adj(kw) if kw is not None else (None, err)
        singles = [try_adj({"listen": e}) for e in entries]
    finally:
        close_socks()
    if whole is None or any(a is None for a, _e in singles):
        if not (whole is None and any(a is None for a, _e in singles)):
            fails.append({"sig": "C20/listen/refusal-differs", "detail": "listen=%r: %r, entry by entry: %r" % (entries, err, [e for _a, e in singles])})
        return fails
    want = []
    for a, _e in singles:
        for pr in pairs(a):
            if pr not in want:
                want.append(pr)
    got = pairs(whole)
    if got != want:
        fails.append({"sig": "C20/listen/entries-not-independent", "detail": "listen=%r (%s form) binds %r; the entries one by one bind %r" % (entries, form, got, want)})
    return fails


def bind_subsets():
    vals = {"listen": "127.0.0.1:8080", "host": "127.0.0.1", "port": 8081, "sockets": ["inet"], "unix_socket": "/tmp/verif-c20.sock"}
    names = list(vals)
    for m in range(1 << len(names)):
        yield {n: vals[n] for i, n in enumerate(names) if m >> i & 1}
    # port / host given as strings, several listen entries
    for m in range(1 << len(names)):
        kw = {n: vals[n] for i, n in enumerate(names) if m >> i & 1}
        if "port" in kw:
            kw["port"] = "9000"
        if "listen" in kw:
            kw["listen"] = "127.0.0.1:8081 127.0.0.1:8082"
        if "sockets" in kw:
            kw["sockets"] = ["inet", "inet6"]
        yield kw


def _spell(h, style):
    return {"lower": h, "title": "-".join(w.capitalize() for w in h.split("-")), "upper": h.upper()}[style]


def proxy_subsets():
    for tp in (None, "10.0.0.1", "*", ""):
        for count in (None, 0, 1, 3):
            for m in range(1 << len(KINDS)):
                hs0 = [KINDS[i] for i in range(len(KINDS)) if m >> i & 1]
                for form in ("list", "str"):
                    # header kinds are case-insensitive on input (the code lower-cases them): every subset in three spellings
                    for style in (("lower", "title", "upper") if hs0 else ("lower",)):
                        hs = [_spell(h, style) for h in hs0]
                        kw = {}
                        if tp is not None:
                            kw["trusted_proxy"] = tp
                        if count is not None:
                            kw["trusted_proxy_count"] = count
                        if hs:
                            kw["trusted_proxy_headers"] = hs if form == "list" else " ".join(hs)
                        elif form == "str":
                            continue
                        yield kw
            for bogus in (["bogus"], ["x-forwarded-for", "x-forwarded"], ["Forwarded"], ["X-FORWARDED-FOR", "forwarded"], "x-forwarded-for\nbogus",
                          ["x-forwarded-for", "Forwarded"], "FORWARDED x-forwarded-proto"):
                kw = {"trusted_proxy_headers": bogus}
                if tp is not None:
                    kw["trusted_proxy"] = tp
                if count is not None:
                    kw["trusted_proxy_count"] = count
                yield kw


def socket_lists():
    kinds = ["inet", "inet6", "unix", "udp", "unixdgram", "seqpacket", "udp6"]
    for n in (1, 2, 3):
        for combo in itertools.product(kinds, repeat=n):
            yield {"sockets": list(combo)}


def unknown_names():
    for n in ("hostt", "Port", "listen ", "trustedproxy", "send-bytes", "max_request_body", "threads_", "", "_params", "app", "help"):
        yield {n: "1"}
        yield {"host": "127.0.0.1", n: "x"}


def cli_strategy():
    """random multi-option command lines and the keyword dict they must be equivalent to"""
    from waitress.adjustments import Adjustments
    opts = []
    for name, cast in Adjustments._params:
        kind = cast_kind(cast)
        if kind == "sockets" or name in ("listen", "host", "port", "unix_socket", "trusted_proxy", "trusted_proxy_count", "trusted_proxy_headers"):
            continue
        opts.append((name, kind))

    @st.composite
    def build(draw):
        chosen = draw(st.lists(st.sampled_from(opts), min_size=1, max_size=6, unique_by=lambda x: x[0]))
        argv, kw = [], {}
        for name, kind in chosen:
            opt = "--" + name.replace("_", "-")
            if kind == "bool":
                b = draw(st.booleans())
                argv.append(opt if b else "--no-" + name.replace("_", "-"))
                kw[name] = draw(st.sampled_from(TRUTHY if b else FALSY))
            else:
                v = draw(st.sampled_from(VALUES[kind]))
                if draw(st.booleans()):
                    argv.append(opt + "=" + v)
                else:
                    argv += [opt, v]
                kw[name] = int(v) if kind == "int" and draw(st.booleans()) else v
        bind = draw(st.sampled_from([None, "listen", "hostport", "unix"]))
        if bind == "listen":
            argv.append("--listen=127.0.0.1:8085")
            kw["listen"] = "127.0.0.1:8085"
        elif bind == "hostport":
            argv += ["--host=127.0.0.1", "--port", "8086"]
            kw.update(host="127.0.0.1", port="8086")
        elif bind == "unix":
            argv.append("--unix-socket=/tmp/verif-c20.sock")
            kw["unix_socket"] = "/tmp/verif-c20.sock"
        return {"kind": "pair", "argv": argv, "kwform": kw}

    return build()


def jobs(tier, seed):
    js = [{"kind": "bind"}, {"kind": "proxy"}, {"kind": "sockets"}, {"kind": "unknown"}, {"kind": "params"}, {"kind": "docs"}, {"kind": "listen"}]
    n = 1200 if tier == "quick" else 15000
    for sh in range(8):
        js.append({"kind": "hyp", "n": n, "seed": derive_seed(seed, "c20", sh)})
    return js


def run_job(job, col):
    k = job["kind"]
    if k in ("bind", "proxy", "sockets", "unknown"):
        gen = {"bind": bind_subsets, "proxy": proxy_subsets, "sockets": socket_lists, "unknown": unknown_names}[k]
        for kw in gen():
            case = {"kind": "kw", "kw": kw}
            col.record(case, run_case(case), nontrivial=len(kw) >= 2 or k in ("sockets", "unknown"), labels=(k, "refuse" if must_refuse(kw) else "accept"))
        col.exhaustive({"bind": "all 2^5 subsets of {listen, host, port, sockets, unix_socket} (two value variants)",
                        "proxy": "all subsets of the proxy group: trusted_proxy x count x 2^6 header subsets (list and string form) + unknown kinds",
                        "sockets": "all socket lists of length <= 3 over 7 socket kinds",
                        "unknown": "unknown option names"}[k])
    elif k == "listen":
        import itertools
        for n in (1, 2, 3):
            for combo in itertools.permutations(LISTEN_ENTRIES, n):
                for form in ("kw", "cli"):
                    case = {"kind": "listen", "entries": list(combo), "form": form}
                    col.record(case, run_case(case), nontrivial=n >= 2, labels=("listen", "listen-portless" if any(":" not in e for e in combo) else "listen-ports"))
        col.exhaustive("all ordered selections of <= 3 of 6 listen entries (with and without port), keyword and CLI form")
    elif k == "params":
        for name, argv, kwform in param_cases():
            case = {"kind": "pair", "argv": argv, "kwform": kwform}
            col.record(case, run_case(case), nontrivial=True, labels=("param:" + name,))
        col.exhaustive("every _params entry x representative values x both CLI spellings x every boolean spelling")
    elif k == "docs":
        fs, n = check_docs()
        case = {"kind": "docs"}
        col.record(case, fs, nontrivial=True, labels=("docs",))
        col.record({"kind": "docs", "names_compared": n}, [], nontrivial=True, labels=("docs",))
    else:
        def one(case):
            col.record(case, run_case(case), nontrivial=True, labels=("cmdline:%d" % len(case["argv"]),))
        hyp_run(cli_strategy(), one, job["n"], job["seed"])
