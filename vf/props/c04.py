"""C04 - Pipelined requests: in order, exactly once, never mixed, under every schedule.

The real I/O loop and the real worker pool run under the baton scheduler with client sender /
reader actors; the wire of every connection must equal the concatenation of the responses the same
pipeline produces in the sequential single-thread world, and the application log must show each
request once, in order, never overlapping on one connection.
"""
import sys

from hypothesis import strategies as st

from .. import case as C
from .. import schedules as S
from .. import schedprop as SP
from .. import simsched
from ..case import s2b
from ..gen import apps as A
from ..refhttp import response as RESP
from ..runner import derive_seed, hyp_run
from ..schedworld import run_scenario
from ..world import observe

PID = "C04"
LEVEL = "exploration"
TECHNIQUE = ("schedule-controlled concurrency testing (baton scheduler over the real I/O thread + real worker threads + "
             "client actors; sparse pre-emption lists, PCT, random, delay-bounded systematic enumeration; sync- and "
             "line-level yield points) with a differential oracle: wire == sequential single-thread wire, exactly-once log")
RULE = ("case = (pipeline of 1..4 requests on 1..2 connections, with/without bodies / Expect / Connection: close, sent in "
        "1..n segments; 1..3 workers; channel_request_lookahead in {0,1,2}; SO_SNDBUF and socket capacity small or large; "
        "client read sizes; response sizes) x schedule (data); non-trivial = the schedule contains >= 1 non-forced "
        "pre-emption; distinct by case hash")
ASSUMPTIONS = [
    "one thread runs at a time (GIL); send() may be pre-empted after copying and before returning; level-triggered readiness",
    "expected bytes come from the same pipeline in the sequential world, interim 100 Continue stripped (C19 checks those)",
]


def build_segments(reqs, cuts):
    stream = ""
    for i, r in enumerate(reqs):
        body = r.get("body", "")
        stream += r.get("lead", "")   # stray blank lines in front of a request (a client that ends every message with an extra CRLF, twice)
        stream += "%s /c%s/r%d HTTP/%s\r\nHost: h\r\nX-Conn: %s\r\n" % (r.get("method", "GET"), r.get("conn_id", "0"), i, r.get("version", "1.1"), r.get("conn_id", "0"))
        if r.get("conn"):
            stream += "Connection: %s\r\n" % r["conn"]
        if r.get("expect"):
            stream += "Expect: 100-continue\r\n"
        if body or r.get("method") == "POST":
            stream += "Content-Length: %d\r\n" % len(body)
        stream += "\r\n" + body
    cuts = sorted(set(c for c in cuts if 0 < c < len(stream)))
    segs = []
    prev = 0
    for c in cuts:
        segs.append(stream[prev:c])
        prev = c
    segs.append(stream[prev:])
    return stream, segs


def strip_interim(wire, methods):
    rs, upto, problem = RESP.parse_responses(wire, list(methods) + [None, None], eof=True, final_marker=b"x-call")
    out = b""
    for r in rs:
        if not r.interim:
            out += wire[r.start:(r.end if r.end is not None else len(wire))]
    if upto < len(wire) and (not rs or rs[-1].end is None or rs[-1].end < len(wire)):
        out += wire[max(upto, rs[-1].end if rs and rs[-1].end else upto):] if not rs or not rs[-1].framing == "close" else b""
    return out, rs, problem


def sequential_wire(case, ci):
    conn = case["conns"][ci]
    for rq in conn["reqs"]:
        rq["conn_id"] = str(ci)
    stream, _ = build_segments(conn["reqs"], [])
    app = A.DslApp(case["apps"])
    adj = {k: v for k, v in (case.get("adj") or {}).items() if k != "threads"}
    o = observe([s2b(stream)], adj=adj, eof=False, app=app)
    return o


def check(case, r, seq):
    fails = []

    def fail(sig, detail):
        fails.append({"sig": "C04/" + sig, "detail": detail})

    if r.handle_errors:
        fail("handle-error/" + str(r.handle_errors[0][1]), "%r" % (r.handle_errors[0],))
    for name, d in r.died:
        fail("thread-died/" + d[0], "%s: %s" % (name, d[1]))
    for ci, c in enumerate(r.conns):
        methods = [s2b(rq.get("method", "GET")) for rq in case["conns"][ci]["reqs"]]
        got = c["rx"] + c["pending"]
        want_full = seq[ci].wire
        got_s, _rs, _p = strip_interim(got, methods)
        want_s, _rs2, _p2 = strip_interim(want_full, methods)
        if got_s != want_s:
            # where do they diverge?
            k = 0
            while k < min(len(got_s), len(want_s)) and got_s[k] == want_s[k]:
                k += 1
            kind = "duplicated-or-extra" if len(got_s) > len(want_s) else ("missing" if want_s.startswith(got_s) else "differs")
            fail("wire/" + kind, "conn %d: wire differs from the sequential concatenation at byte %d (got %d bytes, expected %d): ...%r vs ...%r" % (
                ci, k, len(got_s), len(want_s), got_s[max(0, k - 20):k + 30], want_s[max(0, k - 20):k + 30]))
        if c["closed"] != seq[ci].closed:
            fail("close-differs", "conn %d: closed=%s, sequentially %s" % (ci, c["closed"], seq[ci].closed))
    # application log: each request once, in arrival order per connection, never overlapping on one connection
    per_conn = {}
    for ev, key, idx, step, th in r.app_spans:
        per_conn.setdefault(key, []).append((ev, idx, th))
    for key, evs in per_conn.items():
        depth = 0
        for ev, idx, th in evs:
            depth += 1 if ev == "enter" else -1
            if depth > 1:
                fail("overlapping-execution", "two requests of connection %s executing at once: %r" % (key, evs[:8]))
                break
    paths = {}
    for call in getattr(r.app, "calls", []):
        paths.setdefault(call["path"], 0)
        paths[call["path"]] += 1
    for p, n in paths.items():
        if n > 1:
            fail("executed-twice", "request %s executed %d times" % (p, n))
    return fails


def validate(case):
    conns = case.get("conns")
    if not isinstance(conns, list) or not (1 <= len(conns) <= 2):
        raise C.CaseInvalid("conns")
    for c in conns:
        if not isinstance(c.get("reqs"), list) or not (1 <= len(c["reqs"]) <= 5):
            raise C.CaseInvalid("reqs")
        for rq in c["reqs"]:
            if rq.get("method", "GET") not in ("GET", "POST", "HEAD") or rq.get("version", "1.1") not in ("1.0", "1.1"):
                raise C.CaseInvalid("req")
            if not isinstance(rq.get("body", ""), str) or len(rq.get("body", "")) > 5000:
                raise C.CaseInvalid("body")
            if rq.get("conn") not in (None, "close", "keep-alive"):
                raise C.CaseInvalid("conn")
            if rq.get("lead", "") not in ("", "\r\n", "\r\n\r\n", "\r\n\r\n\r\n"):
                raise C.CaseInvalid("lead")
    if not isinstance(case.get("apps"), list) or not case["apps"]:
        raise C.CaseInvalid("apps")
    for b in case["apps"]:
        if b.get("status") != "200 OK" or b.get("mode") not in ("list", "gen", "write", "purelist"):
            raise C.CaseInvalid("behaviour")
        if not isinstance(b.get("chunks"), list) or any(not isinstance(c, str) for c in b["chunks"]):
            raise C.CaseInvalid("chunks")
        if b.get("declared_cl") != sum(len(c) for c in b["chunks"]):
            raise C.CaseInvalid("declared_cl")
    adj = case.get("adj") or {}
    if not (1 <= adj.get("threads", 1) <= 4) or adj.get("channel_request_lookahead", 0) not in (0, 1, 2, 3):
        raise C.CaseInvalid("adj")
    for k in ("send_bytes", "outbuf_high_watermark", "outbuf_overflow", "recv_bytes"):
        if k in adj and (not isinstance(adj[k], int) or adj[k] < 1):
            raise C.CaseInvalid(k)
    if case.get("gran", "sync") not in ("sync", "line"):
        raise C.CaseInvalid("gran")


def to_scenario(case):
    sc = {"adj": dict(case.get("adj") or {}), "sndbuf": case.get("sndbuf", 1 << 20), "gran": case.get("gran", "sync"),
          "apps": case["apps"], "conns": []}
    for ci, c in enumerate(case["conns"]):
        for rq in c["reqs"]:
            rq["conn_id"] = str(ci)
        _stream, segs = build_segments(c["reqs"], c.get("cuts", []))
        sc["conns"].append({"segments": segs, "capacity": c.get("capacity"), "drain": c.get("drain", "all"),
                            "drain_stop_after": c.get("stop_after"), "drain_resume": True,
                            "waits": [None] + ["continue" if c.get("wait_continue") else None] * (len(segs) - 1)})
    return sc


def run_case_full(case, source=None, record=False):
    validate(case)
    case = {k: (([dict(c, reqs=[dict(r) for r in c["reqs"]]) for c in v]) if k == "conns" else v) for k, v in case.items()}
    sc = to_scenario(case)
    if source is None:
        try:
            source = S.make_source(case.get("schedule"))
        except Exception:
            raise C.CaseInvalid("schedule")
    try:
        r, sched = run_scenario(sc, source, record_decisions=record)
    except simsched.Overrun:
        return [], False, {"overrun"}, None, None
    seq = [sequential_wire(case, ci) for ci in range(len(case["conns"]))]
    if any(o.spin or o.exception for o in seq):
        raise C.CaseInvalid("sequential run does not terminate cleanly")
    fails = check(case, r, seq)
    labels = {"workers:%d" % (case.get("adj") or {}).get("threads", 1), "lookahead:%d" % (case.get("adj") or {}).get("channel_request_lookahead", 0),
              "gran:" + case.get("gran", "sync")}
    if r.preemptions:
        labels.add("preempted")
    if any(len(c["send_log"]) and any(a < o for _t, o, a in c["send_log"]) for c in r.conns):
        labels.add("partial-send")
    if r.spin:
        labels.add("spin")
    return fails, r.preemptions > 0, labels, r.trace, sched


def run_case(case):
    return run_case_full(case)[0]


# ---------------------------------------------------------------- generation
def req_strategy():
    return st.fixed_dictionaries({
        "method": st.sampled_from(["GET", "GET", "POST", "HEAD"]),
        "version": st.sampled_from(["1.1", "1.1", "1.1", "1.0"]),
        "conn": st.sampled_from([None, None, None, "close", "keep-alive"]),
        "body": st.sampled_from(["", "", "abc", "x" * 50]),
        "expect": st.sampled_from([False, False, True, True]),
        "lead": st.sampled_from(["", "", "", "", "\r\n", "\r\n\r\n"]),
    }).map(lambda r: dict(r, body=r["body"] if r["method"] == "POST" else "", expect=r["expect"] and r["method"] == "POST" and r["version"] == "1.1"))


def beh_strategy():
    return st.fixed_dictionaries({
        "status": st.just("200 OK"),
        "mode": st.sampled_from(["list", "gen", "write", "purelist"]),
        "chunks": st.lists(st.sampled_from(["a", "bc", "", "d" * 30, "e" * 120]), min_size=0, max_size=3),
        "with_cl": st.booleans(),
        "read_input": st.booleans(),
    }).map(lambda b: dict(b, declared_cl=sum(len(c) for c in b["chunks"]) if b["with_cl"] or True else None))


def case_strategy():
    @st.composite
    def build(draw):
        nconn = draw(st.sampled_from([1, 1, 1, 2]))
        conns = []
        for _ in range(nconn):
            reqs = draw(st.lists(req_strategy(), min_size=1, max_size=4))
            stream, _ = build_segments(reqs, [])
            wc = False
            if any(r.get("expect") for r in reqs) and draw(st.booleans()):
                cuts = expect_cut(reqs)
                wc = True
            else:
                cuts = draw(st.lists(st.integers(1, max(1, len(stream) - 1)), max_size=3))
            conns.append({"reqs": reqs, "cuts": cuts, "capacity": draw(st.sampled_from([None, None, 7, 40, 200])),
                          "drain": draw(st.sampled_from(["all", "all", 5, 64])), "wait_continue": wc})
        adj = {"threads": draw(st.integers(1, 3)), "channel_request_lookahead": draw(st.sampled_from([0, 0, 1, 2]))}
        if draw(st.integers(0, 3)) == 0:
            adj["send_bytes"] = draw(st.sampled_from([1, 20, 500]))
        if draw(st.integers(0, 3)) == 0:
            adj["outbuf_overflow"] = draw(st.sampled_from([16, 100]))
        return {"conns": conns, "apps": draw(st.lists(beh_strategy(), min_size=1, max_size=3)), "adj": adj,
                "sndbuf": draw(st.sampled_from([1 << 20, 1 << 20, 10, 64])), "gran": draw(st.sampled_from(["sync", "sync", "sync", "line"])),
                "schedule": draw(S.schedule_strategy())}

    return build()


B_SMALL = {"status": "200 OK", "mode": "list", "chunks": ["hi"], "declared_cl": 2}
B1 = {"status": "200 OK", "mode": "list", "chunks": ["hello"], "declared_cl": 5}
B2 = {"status": "200 OK", "mode": "write", "chunks": ["ab", "c" * 40], "declared_cl": 42}
B8 = {"status": "200 OK", "mode": "write", "chunks": ["ab"] * 8, "declared_cl": 16}
def expect_cut(reqs):
    """cut right after the header block of the last expecting request (its body is sent after the interim response)"""
    stream = ""
    cut = None
    for i, r in enumerate(reqs):
        one, _ = build_segments([dict(r, conn_id="0")], [])
        if r.get("expect"):
            cut = len(stream) + len(one) - len(r.get("body", ""))
        stream += one
    return [cut] if cut else []


E1 = [{"method": "GET"}, {"method": "POST", "body": "abc", "expect": True}]
E2 = [{"method": "GET"}, {"method": "GET"}, {"method": "POST", "body": "x" * 50, "expect": True}, {"method": "GET"}]
def _big(n1, n2, rx):
    """a response of n1 + n2 kB produced in 1 kB pieces; after n1 pieces the application waits until the client has received rx bytes"""
    ch = [("%x" % (i % 16)) * 1000 for i in range(n1 + n2)]
    return {"status": "200 OK", "mode": "gen", "chunks": ch, "declared_cl": 1000 * (n1 + n2), "pause_after": n1, "pause_until_rx": rx}


E3 = [{"method": "GET"}, {"method": "POST", "body": "abc", "expect": True}, {"method": "GET"}]
_e3 = expect_cut(E3)[0]
PB = {"status": "200 OK", "mode": "gen", "chunks": ["ab"] * 4, "declared_cl": 8, "pause_after": 2, "pause_until_rx": 100}
_RC = [{"method": "GET", "conn": "close"}, {"method": "GET"}]
_BL = [{"method": "GET"}, {"method": "GET", "lead": "\r\n\r\n"}, {"method": "GET", "lead": "\r\n"}]
FIXED = [
    # blank lines between pipelined requests (an empty pseudo-message completes while a real request is queued)
    {"conns": [{"reqs": _BL, "cuts": []}], "apps": [B8], "adj": {"threads": 2}},
    {"conns": [{"reqs": _BL, "cuts": [40]}], "apps": [B8, B_SMALL], "adj": {"threads": 3, "channel_request_lookahead": 2}},
    # the response to the first request closes the connection; the second request arrives in a read of its own while the first is still
    # being produced (read-ahead on, the application waits for the client in mid-response): one deviation from the default schedule puts
    # the I/O thread between "is this connection closing?" and the lock while the worker takes the close decision
    {"conns": [{"reqs": _RC, "cuts": [len(build_segments([dict(_RC[0], conn_id="0")], [])[0])]}], "apps": [PB, B_SMALL],
     "adj": {"threads": 1, "channel_request_lookahead": 1}},
    {"conns": [{"reqs": _RC, "cuts": [len(build_segments([dict(_RC[0], conn_id="0")], [])[0])]}], "apps": [PB, B_SMALL],
     "adj": {"threads": 2, "channel_request_lookahead": 2}},
    # an output buffer that is partly sent while it sits in its in-memory-file stage (> 8 KiB queued) and then grows past outbuf_overflow:
    # the move to a temporary file has to carry the read position over; a pipelined request follows on the same connection
    {"conns": [{"reqs": [{"method": "GET"}, {"method": "GET"}], "cuts": [], "capacity": 500, "drain": 500, "stop_after": 100}],
     "apps": [_big(9, 14, 1100), B_SMALL], "adj": {"threads": 1, "outbuf_overflow": 12000}, "heavy": True},
    {"conns": [{"reqs": [{"method": "GET"}, {"method": "GET"}], "cuts": [], "capacity": 700, "drain": 300}],
     "apps": [_big(10, 10, 1500), B_SMALL], "adj": {"threads": 2, "outbuf_overflow": 9000}, "heavy": True},
    # a client that does not wait for 100 Continue: header block, then body + the start of a further request, then the rest; a second
    # connection keeps the loop turning, so that the first one's readability is re-evaluated at arbitrary moments
    {"conns": [{"reqs": E3, "cuts": [_e3, _e3 + 3 + 12], "wait_continue": False},
               {"reqs": [{"method": "GET"}, {"method": "GET"}, {"method": "GET"}], "cuts": list(range(8, 130, 8))}],
     "apps": [B8], "adj": {"threads": 3}, "stall_runs": 700, "stall_params": {"est_hot": [25, 30, 35, 40], "max_dur": [20, 30, 45, 60]}},
    {"conns": [{"reqs": E3, "cuts": [_e3, _e3 + 3 + 12], "wait_continue": False}], "apps": [B2], "adj": {"threads": 2}},
    {"conns": [{"reqs": E1, "cuts": expect_cut(E1), "wait_continue": True, "capacity": 8, "drain": 8}], "apps": [B_SMALL], "adj": {"threads": 1}},
    {"conns": [{"reqs": E1, "cuts": expect_cut(E1), "wait_continue": True}], "apps": [B_SMALL], "adj": {"threads": 2, "channel_request_lookahead": 1}},
    {"conns": [{"reqs": E2, "cuts": expect_cut(E2), "wait_continue": True, "capacity": 16, "drain": "all"}], "apps": [B_SMALL], "adj": {"threads": 2}},
    {"conns": [{"reqs": [{"method": "GET"}, {"method": "GET"}], "cuts": []}], "apps": [B1], "adj": {"threads": 1}},
    {"conns": [{"reqs": [{"method": "GET"}, {"method": "POST", "body": "abc", "expect": True}], "cuts": [60], "capacity": 30, "drain": 10}], "apps": [B2, B1],
     "adj": {"threads": 1}, "sndbuf": 16},
    {"conns": [{"reqs": [{"method": "GET"}, {"method": "GET"}, {"method": "GET", "conn": "close"}], "cuts": [40, 90]}], "apps": [B1, B2],
     "adj": {"threads": 2, "channel_request_lookahead": 2}},
    {"conns": [{"reqs": [{"method": "POST", "body": "x" * 50}, {"method": "GET"}], "cuts": [70], "capacity": 20, "drain": 7}], "apps": [B2],
     "adj": {"threads": 2, "channel_request_lookahead": 1}, "sndbuf": 8},
    {"conns": [{"reqs": [{"method": "GET"}, {"method": "GET"}], "cuts": [50]}, {"reqs": [{"method": "GET"}], "cuts": []}], "apps": [B1, B2],
     "adj": {"threads": 2}},
    {"conns": [{"reqs": [{"method": "GET", "version": "1.0", "conn": "keep-alive"}, {"method": "HEAD"}, {"method": "GET"}], "cuts": []}], "apps": [B1],
     "adj": {"threads": 3, "channel_request_lookahead": 1}, "sndbuf": 32},
]


def jobs(tier, seed):
    return SP.jobs(sys.modules[__name__], tier, seed)


def run_job(job, col):
    SP.run_job(sys.modules[__name__], job, col)
