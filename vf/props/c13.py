"""C13 - Client faults are contained; teardown happens once, on the I/O thread only.

Fault enumeration: a fault-free run of each scenario logs every recv / send / accept / getsockopt /
setsockopt / setblocking call; each of {ECONNRESET, EPIPE, ENOTCONN, EBADF, EINVAL, generic OSError,
EOF} is then placed on every call index (all single placements; pairs in the thorough tier), under the
deterministic schedule and under sampled schedules.  A bystander connection and a late connection
probe that the loop, the listener and the workers are unharmed.
"""
import sys

from hypothesis import strategies as st

from .. import case as C
from .. import schedules as S
from .. import simsched
from ..case import s2b
from ..refhttp import response as RESP
from ..runner import derive_seed, hyp_run
from ..schedworld import run_scenario

PID = "C13"
LEVEL = "fault_enumeration"
TECHNIQUE = ("fault enumeration over the logged socket call sites of 5 scenarios (every single placement of 7 fault kinds; all "
             "pairs in the thorough tier) in the scheduled world with real worker and I/O threads, plus sampled schedules; "
             "containment / once-only teardown / bystander-unchanged oracle; enumerated 'client vanishes in mid-response, clock passes "
             "channel_timeout' histories under the simulated clock")
RULE = ("case = (scenario, fault plan {call site -> fault} on the victim connection or the listening socket, schedule); call "
        "sites come from the fault-free run's call log; non-trivial = the planned fault was actually reached; distinct by case hash")
ASSUMPTIONS = ["errno values limited to the listed set; send() is atomic in the kernel; level-triggered readiness",
               "'torn down exactly once' is observed on the OS resource (one close() of the socket, one removal from the map); repeated idempotent handle_close() calls are not counted",
               "an accepted socket whose set-up failed may be left to garbage collection ('closed or unreferenced')"]
FAULTS = ["ECONNRESET", "EPIPE", "ENOTCONN", "EBADF", "EINVAL", "generic", "EOF"]
BIGB = {"status": "200 OK", "mode": "gen", "chunks": ["z" * 70, "y" * 70, "x" * 70]}
OKB = {"status": "200 OK", "mode": "list", "chunks": ["ok"], "declared_cl": 2}


def req(ci, i, extra="", body=""):
    return "%s /c%d/r%d HTTP/1.1\r\nHost: h\r\nX-Conn: %d\r\n%s%s\r\n%s" % ("POST" if body else "GET", ci, i, ci, extra,
                                                                          "Content-Length: %d\r\n" % len(body) if body else "", body)


SCENARIOS = {
    "single": {"victim": {"segments": [req(0, 0)]}, "apps": [OKB]},
    "pipelined": {"victim": {"segments": [req(0, 0) + req(0, 1)]}, "apps": [OKB], "adj": {"channel_request_lookahead": 1}},
    "large": {"victim": {"segments": [req(0, 0)], "capacity": 40, "drain": 16}, "apps": [BIGB], "sndbuf": 32, "adj": {"outbuf_high_watermark": 60}},
    "body": {"victim": {"segments": [req(0, 0, body="abcdef")[:60], req(0, 0, body="abcdef")[60:]], "eof": True}, "apps": [OKB]},
    "expect": {"victim": {"segments": [req(0, 0) + "POST /c0/r1 HTTP/1.1\r\nHost: h\r\nX-Conn: 0\r\nExpect: 100-continue\r\nContent-Length: 3\r\n\r\n", "abc"],
                          "waits": [None, "continue"], "capacity": 30, "drain": 10}, "apps": [OKB]},
    "options": {"victim": {"segments": [req(0, 0, "Connection: close\r\n")]}, "apps": [OKB], "adj": {"threads": 2}},
}


def to_scenario(case):
    base = SCENARIOS[case["scenario"]]
    v = dict(base["victim"])
    v["faults"] = {k: f for k, f in (case.get("faults") or {}).items() if not k.startswith("L") and not k.startswith("idle")}
    v["sticky_faults"] = bool(case.get("sticky"))   # the failing socket stays dead: every later send / recv fails the same way
    for k, f in (case.get("faults") or {}).items():
        if k.startswith("idle"):
            v["late_error"] = f   # the idle connection reports an asynchronous socket error at the next recv
    by = {"segments": [req(1, 0), req(1, 1)], "waits": [None, "quiet"]}
    late = {"segments": [req(2, 0)], "late": True}
    adj = dict(base.get("adj") or {})
    adj.setdefault("threads", 1)
    if "lse" in case:
        adj["log_socket_errors"] = bool(case["lse"])
    lf = {k[1:]: f for k, f in (case.get("faults") or {}).items() if k.startswith("L")}
    return {"adj": adj, "gran": case.get("gran", "sync"), "apps": base["apps"], "sndbuf": base.get("sndbuf", 1 << 20), "infinite_timeouts": True,
            "conns": [v, by, late], "listener_faults": [lf]}


def validate(case):
    if case.get("scenario") not in SCENARIOS or case.get("gran", "sync") not in ("sync", "line"):
        raise C.CaseInvalid("scenario")
    f = case.get("faults") or {}
    if not isinstance(f, dict) or len(f) > 3:
        raise C.CaseInvalid("faults")
    for k, v in f.items():
        kk = k[1:] if k.startswith("L") else k
        parts = kk.split(":")
        if len(parts) != 2 or parts[0] not in ("recv", "send", "accept", "getsockopt", "setsockopt", "setblocking", "idle") or not parts[1].isdigit() or v not in FAULTS:
            raise C.CaseInvalid("fault")
        if (parts[0] == "accept") != k.startswith("L"):
            raise C.CaseInvalid("accept belongs to the listener")
        if parts[0] == "idle" and v == "EOF":
            raise C.CaseInvalid("idle error is an errno")
        if v == "EOF" and parts[0] != "recv":
            raise C.CaseInvalid("EOF only on recv")


_baseline = {}


def baseline(name):
    if name not in _baseline:
        r, _s = run_scenario(to_scenario({"scenario": name}), simsched.Source())
        _baseline[name] = r
    return _baseline[name]


def run_case_full(case, source=None, record=False):
    validate(case)
    if source is None:
        try:
            source = S.make_source(case.get("schedule"))
        except Exception:
            raise C.CaseInvalid("schedule")
    try:
        r, sched = run_scenario(to_scenario(case), source, record_decisions=record)
    except simsched.Overrun:
        return [], False, {"overrun"}, None, None
    base = baseline(case["scenario"])
    fails = []

    def fail(sig, detail):
        fails.append({"sig": "C13/" + sig, "detail": detail})

    plan = case.get("faults") or {}
    hit = [f for c in r.conns for f in c["faults_hit"]] + [f for f in getattr(r, "listener_faults_hit", [])]
    what = "+".join(sorted("%s=%s" % (k.rstrip("0123456789").rstrip(":"), v) for k, v in plan.items())) or "none"
    # the loop, the listener, the trigger and the workers are unharmed
    for name, d in r.died:
        fail("thread-died/%s/%s" % (name.rstrip("0123456789-"), d[0]), "%s died: %s: %s (faults %s)" % (name, d[0], d[1], what))
    if not all(r.listener_open):
        fail("listener-closed", "a listening socket was closed / unregistered (faults %s); last-resort handler: %r" % (what, r.handle_errors[:1]))
    if not r.trigger_in_map:
        fail("trigger-lost", "the wake-up pipe is no longer polled (faults %s)" % what)
    io = [t for t in r.threads if t[0] == "io"][0]
    if io[1] == "done":
        fail("loop-exited", "the I/O loop returned (faults %s)" % what)
    # bystander unchanged and still served; late connection accepted and served
    if all(r.listener_open) and io[1] != "done":
        by, byb = r.conns[1], base.conns[1]
        if by["rx"] != byb["rx"]:
            fail("bystander-disturbed", "the other connection's byte stream changed: %d vs %d bytes (faults %s)" % (len(by["rx"]), len(byb["rx"]), what))
        late, lateb = r.conns[2], base.conns[2]
        if late["rx"] != lateb["rx"] and not any(k.startswith("L") for k in plan):
            fail("late-connection-not-served", "a connection made after the fault got %d bytes (fault-free: %d) (faults %s)" % (len(late["rx"]), len(lateb["rx"]), what))
    # teardown of the victim: once, by the I/O thread only; nothing but the I/O thread touches the map
    for ci, c in enumerate(r.conns):
        cc = c["close_calls"]
        if len(cc) > 1:
            fail("closed-twice", "socket of connection %d closed %d times by %r (faults %s)" % (ci, len(cc), cc, what))
        for th in cc:
            if th != "io":
                fail("closed-by-worker", "socket of connection %d closed by thread %s (faults %s)" % (ci, th, what))
    for th, op, k in r.map_muts:
        if th not in ("io", "main"):
            fail("map-mutated-by-worker", "thread %s did %s on the socket map (fd %r) (faults %s)" % (th, op, k, what))
            break
    for cb in r.chan_buffers:
        # (bytes merely *accounted* on a channel that is gone hold no resource: e.g. the 25-byte interim response a worker appends
        # just after the I/O thread closed the channel; what must not survive the teardown is an open buffer or wrapped file)
        if not cb["in_map"] and cb["open_outbuf_files"]:
            fail("buffers-not-released", "torn-down channel keeps %d open buffer file(s) / %d bytes accounted (faults %s)" % (cb["open_outbuf_files"], cb["tol"], what))
    # a connection the server considers gone must not stay registered / open (descriptor leak)
    for ch in r.snap["channels"]:
        if ch["in_map"] and not ch["connected"]:
            fail("zombie-channel", "a connection is marked disconnected but is still registered with the loop and its socket is open (faults %s)" % what)
    if r.spin:
        fail("spin", "the loop spins after the fault (faults %s): %r" % (what, r.snap["channels"]))
    if case.get("sticky") and any(f[1] in ("send", "recv") and f[3] != "EOF" for f in r.conns[0]["faults_hit"]) and not r.conns[0]["close_calls"] and not fails:
        fail("dead-connection-not-torn-down", "the victim's socket fails every send / recv since the fault (%s), yet the server never closed it: %r" % (
            what, [c for c in r.snap["channels"]]))
    labels = {"scenario:" + case["scenario"], "gran:" + case.get("gran", "sync")}
    reached = bool(hit) or any(k.startswith("L") for k in plan)
    for k, v in plan.items():
        labels.add("fault:" + v)
        labels.add("site:" + k.split(":")[0])
    if reached:
        labels.add("fault-reached")
    return fails, reached, labels, r.trace, sched


def run_vanish(case):
    """a client that vanishes without a reset (stops reading, sends nothing more) while a response is pending, then the
    simulated clock passes channel_timeout / cleanup_interval: judged with the single-thread clock world of C18 - the loop must
    survive the clean-up pass, the listener must go on accepting and other connections must be served"""
    from . import c18
    h = {"cfg": case.get("cfg") or {}, "capacity": case.get("capacity"), "ops": case.get("ops"), "nlisten": case.get("nlisten", 1)}
    fs, _nt, labels = c18.run_history(h)
    out = []
    for f in fs:
        tail = f["sig"].split("/", 1)[1]
        if tail.startswith(("thread-died", "handle-error", "not-accepting-below-limit", "busy-connection-reaped")):
            out.append({"sig": "C13/vanish/" + tail, "detail": "client vanished in mid-response, clock advanced: " + f["detail"]})
    reached = "clock-past-timeout" in labels
    return out, reached, {"vanish", "vanish-clock-past-timeout" if reached else "vanish-short"}, None, None


def vanish_cases():
    for cap in (20, 60, None):
        for nreq in (1, 2):
            for pre in ([["stalls", 0]], [], [["stalls", 0], ["stalls", 1]]):
                for clocks in ([3], [1, 1, 1, 3], [3, 3], [0.5, 3, 30], [40]):
                    for to in (2, 120):
                        ops = [["connect", 0], ["connect", 0]] + pre + [["send", 0, False]] * nreq + [["clock", c] for c in clocks]
                        ops += [["connect", 0], ["send", 2, False], ["send", 1, False], ["clock", 1]]
                        yield {"vanish": True, "cfg": {"channel_timeout": to, "cleanup_interval": 1 if to == 2 else 30, "connection_limit": 100},
                               "capacity": cap, "ops": ops}


def vanish_other_cases():
    """the vanished client's connection is older than a healthy one whose request is still executing (and has output pending): cleaning
    up after the first must not touch the second"""
    for cap in (60, 200):
        for clocks in ([3, 3, 3], [1, 1, 1, 1, 3], [5]):
            for threads in (1, 2):
                ops = [["connect", 0], ["connect", 0], ["stalls", 0], ["stalls", 1], ["send", 0, False], ["send", 1, 2]] + [["clock", c] for c in clocks]
                ops += [["finish"], ["reads", 1], ["clock", 1]]
                yield {"vanish": True, "cfg": {"channel_timeout": 2, "cleanup_interval": 1, "connection_limit": 100, "threads": threads}, "capacity": cap, "ops": ops}


def run_case(case):
    if case.get("vanish"):
        return run_vanish(case)[0]
    return run_case_full(case)[0]


def call_sites(name):
    """(key, count) for the victim connection and the listener, from the fault-free call log"""
    r = baseline(name)
    vic_fd = None
    fds = sorted(set(fd for (_t, kind, fd, _op, _i) in r.calllog if kind == "conn"))
    vic_fd = fds[0] if fds else None
    counts = {}
    for (_t, kind, fd, op, i) in r.calllog:
        if kind == "conn" and fd == vic_fd and op in ("recv", "send", "getsockopt", "setsockopt", "setblocking"):
            counts[op] = max(counts.get(op, 0), i + 1)
        if kind == "listen" and op == "accept":
            counts["Laccept"] = max(counts.get("Laccept", 0), i + 1)
    return counts


def single_placements(name):
    for f in FAULTS[:-1]:
        yield {"scenario": name, "faults": {"idle:0": f}}
    for op, n in sorted(call_sites(name).items()):
        for i in range(n + 1):
            for f in FAULTS:
                if f == "EOF" and op != "recv":
                    continue
                yield {"scenario": name, "faults": {"%s:%d" % (op, i): f}}
                if op in ("send", "recv") and f != "EOF":
                    yield {"scenario": name, "faults": {"%s:%d" % (op, i): f}, "sticky": True}
                    if f in ("EINVAL", "generic", "EPIPE"):
                        yield {"scenario": name, "faults": {"%s:%d" % (op, i): f}, "sticky": True, "lse": False}
                if op in ("send", "recv") and f in ("EINVAL", "generic", "ECONNRESET"):
                    # the same placement with log_socket_errors off (whether an error is logged must not decide whether it is handled)
                    yield {"scenario": name, "faults": {"%s:%d" % (op, i): f}, "lse": False}


def jobs(tier, seed):
    js = [{"kind": "vanish"}]
    # a pipelined Expect request (deferred 100 Continue sent by the worker) x a peer that is gone at one of the first sends x sampled schedules:
    # the worker's tail of service() and the I/O thread's tear-down take the connection's two locks at the same time
    for sh in range(3):
        js.append({"kind": "expect_faults", "n": 250 if tier == "quick" else 6000, "seed": derive_seed(seed, "c13x", sh)})
    for name in SCENARIOS:
        js.append({"kind": "single", "scenario": name})
        if tier == "thorough":
            for sh in range(4):
                js.append({"kind": "pairs", "scenario": name, "shard": sh, "nshards": 4})
    n = 220 if tier == "quick" else 6000
    for sh in range(11 if tier == "quick" else 16):
        js.append({"kind": "hyp", "n": n, "seed": derive_seed(seed, "c13", sh)})
    return js


def case_strategy():
    @st.composite
    def build(draw):
        name = draw(st.sampled_from(sorted(SCENARIOS)))
        sites = call_sites(name)
        faults = {}
        for _ in range(draw(st.sampled_from([1, 1, 2]))):
            op = draw(st.sampled_from(sorted(sites) + ["idle"]))
            i = draw(st.integers(0, sites.get(op, 0)))
            f = draw(st.sampled_from(FAULTS if op == "recv" else FAULTS[:-1]))
            faults["%s:%d" % (op, i)] = f
        case = {"scenario": name, "faults": faults, "gran": draw(st.sampled_from(["sync", "sync", "line"])), "schedule": draw(S.schedule_strategy())}
        if draw(st.integers(0, 2)) == 0:
            case["lse"] = False
        if draw(st.booleans()):
            case["sticky"] = True
        return case

    return build()


def run_job(job, col):
    def one(case, src=None):
        try:
            fs, nt, labels, trace, _s = run_case_full(case, source=src)
        except C.CaseInvalid:
            col.labels["outside-domain"] += 1
            return
        if fs and trace is not None and case.get("schedule"):
            case = dict(case, schedule=S.replay_spec(trace))
        col.record(case, fs, nontrivial=nt, labels=labels)

    k = job["kind"]
    if k == "expect_faults":
        import random
        rnd = random.Random(job["seed"])
        for _ in range(job["n"]):
            kind = rnd.choice(["hot", "stall", "random"])
            if kind == "hot":
                spec = {"kind": "hot", "seed": rnd.randrange(10 ** 9), "p_hot": rnd.choice([0.15, 0.3, 0.5]), "p_cold": 0.01}
            elif kind == "stall":
                spec = {"kind": "stall", "seed": rnd.randrange(10 ** 9), "stalls": rnd.choice([1, 2]), "est_hot": rnd.choice([20, 40, 80]), "max_dur": rnd.choice([30, 100, 300])}
            else:
                spec = {"kind": "random", "seed": rnd.randrange(10 ** 9), "p": rnd.choice([0.05, 0.2])}
            one({"scenario": "expect", "faults": {"send:%d" % rnd.randrange(0, 9): rnd.choice(["EPIPE", "ECONNRESET", "ENOTCONN"])}, "sticky": rnd.choice([True, False]),
                 "schedule": spec, "gran": rnd.choice(["sync", "line"])})
    elif k == "vanish":
        for case in list(vanish_cases()) + list(vanish_other_cases()):
            try:
                fs, nt, labels, _t, _s = run_vanish(case)
            except C.CaseInvalid:
                continue
            col.record(case, fs, nontrivial=nt, labels=labels)
    elif k == "single":
        one({"scenario": job["scenario"]})
        for case in single_placements(job["scenario"]):
            one(case)
        col.exhaustive("every single placement of 7 fault kinds on every logged recv/send/getsockopt/setsockopt/setblocking call of the victim and every accept of the listener, 5 scenarios, deterministic schedule")
    elif k == "pairs":
        singles = list(single_placements(job["scenario"]))
        i = 0
        for a in range(len(singles)):
            for b in range(a + 1, len(singles)):
                ka, kb = list(singles[a]["faults"])[0], list(singles[b]["faults"])[0]
                if ka == kb:
                    continue
                i += 1
                if i % job["nshards"] != job["shard"] or i % 7:
                    continue
                one({"scenario": job["scenario"], "faults": dict(singles[a]["faults"], **singles[b]["faults"])})
    else:
        hyp_run(case_strategy(), one, job["n"], job["seed"])
