"""C10 - Framing-critical tokens are accepted exactly per grammar, at any length.

Each of the five gates is judged at its call site against hand-written recognisers
(vf.refhttp.tokens): bounded-exhaustive strings over a byte-class alphabet, all strings within
edit distance 1/2 of base members, fragment products, and Hypothesis-pumped long strings.
"""
import itertools

from hypothesis import strategies as st

from .. import case as C
from ..case import b2s, s2b
from ..refhttp import tokens as T
from ..runner import derive_seed, hyp_run

PID = "C10"
LEVEL = "exploration"
TECHNIQUE = ("bounded-exhaustive differential testing of the five acceptance gates at their call sites against "
             "hand-written grammar recognisers: all strings up to a length bound over a byte-class alphabet, all "
             "edit-distance-1/2 neighbours of base members, fragment products, Hypothesis-pumped long strings")
RULE = ("case = (gate, byte string); gates: Content-Length value (via parse_header), chunk control line = chunk-size "
        "[chunk-ext] (via ChunkedReceiver), header line (via parse_header), request line (via HTTPRequestParser."
        "received); strings: every string up to length L over one representative per byte class, every string within "
        "edit distance d of base members, products of grammar fragments, and long pumped members / near-members; "
        "strings containing the CRLF sequence are excluded (the call site would split them); non-trivial = the string "
        "is a member of the gate's grammar or becomes one by deleting one byte; distinct by construction / case hash")
ASSUMPTIONS = [
    "language equality cannot be decided by this technique: enumeration is complete only up to the stated bounds "
    "(larger than the state count of any regex-sized implementation) and sampled beyond",
    "converse direction (member => accepted) is asserted on waitress's documented subset: upper-case methods; "
    "targets of ASCII VCHAR without brackets (URI syntax is not framing); Content-Length of at most 4300 digits "
    "(CPython int() limit; longer numbers exceed every body limit)",
    "header-line gate is exercised with field names that have no special meaning to the parser",
]

_ADJ = None


def adj():
    global _ADJ
    if _ADJ is None:
        from waitress.adjustments import Adjustments
        _ADJ = Adjustments()
    return _ADJ


CLASS_NAMES = {}


def _cls(c):
    if 0x30 <= c <= 0x39:
        return "D"
    if c in b"abcdefABCDEF":
        return "H"
    if 0x41 <= c <= 0x5A or 0x61 <= c <= 0x7A:
        return "A"
    return {0x20: "SP", 0x09: "HT", 0x0D: "CR", 0x0A: "LF", 0x0B: "VT", 0x0C: "FF", 0x00: "NUL", 0x7F: "DEL",
            0x85: "x85", 0xA0: "xA0", 0xB2: "xB2"}.get(c) or ("CTL" if c < 0x20 else ("OBS" if c >= 0x80 else chr(c)))


def pattern(b, maxlen=10):
    out = []
    for c in b:
        k = _cls(c)
        if not out or out[-1] != k:
            out.append(k)
    if len(out) > maxlen:
        out = out[:maxlen // 2] + ["..."] + out[-maxlen // 2:]
    return "".join(out) if all(len(x) == 1 for x in out) else "+".join(out)


PYWS = b" \t\n\r\x0b\x0c"


def feature(gate, s):
    """narrow root-cause signature of a wrongly accepted string: which byte classes, where"""
    m = MEMBER[gate]
    i = 0
    while i < len(s) and (s[i] in PYWS or s[i] < 0x21 or s[i] == 0x7F):
        i += 1
    j = len(s)
    while j > i and (s[j - 1] in PYWS or s[j - 1] < 0x21 or s[j - 1] == 0x7F):
        j -= 1
    lead = sorted(set(_cls(c) for c in s[:i]))
    trail = sorted(set(_cls(c) for c in s[j:]))
    core = s[i:j]
    parts = []
    if lead:
        parts.append("lead:" + ",".join(lead))
    if trail:
        parts.append("trail:" + ",".join(trail))
    if not m(core):
        inner = sorted(set(_cls(c) for c in core if c < 0x21 or c == 0x7F or c >= 0x80))
        if inner:
            parts.append("inner:" + ",".join(inner))
        else:
            parts.append("core:" + pattern(core, 6))
    return ";".join(parts) or "core:" + pattern(s, 6)


# ---------------------------------------------------------------- the four call sites
def judge_cl(s):
    """returns (expected_member, impl_accepts, value_ok, raised)"""
    from waitress.parser import HTTPRequestParser, ParsingError, TransferEncodingNotImplemented
    line = b"Content-Length:" + s
    v = s.strip(b" \t")
    exp = T.is_header_line(line) and T.is_content_length(v)
    p = HTTPRequestParser(adj())
    try:
        p.parse_header(b"POST / HTTP/1.1\r\n" + line)
    except (ParsingError, TransferEncodingNotImplemented):
        return exp, False, True, None
    except Exception as e:
        return exp, False, True, type(e).__name__
    ok = True
    if exp:
        d = v.lstrip(b"0")
        ok = p.content_length == (int(d or b"0") if len(d) < 4000 else -1)
    return exp, True, ok, None


def judge_ctl(s, piece=None):
    from waitress.buffers import OverflowableBuffer
    from waitress.receiver import ChunkedReceiver
    exp = T.is_control_line(s)
    r = ChunkedReceiver(OverflowableBuffer(1 << 20))
    try:
        data = s + b"\r\n"
        if piece:
            # the line arrives in reads of `piece` bytes (the channel reads recv_bytes at a time): acceptance is a property of the line
            for i in range(0, len(data), piece):
                r.received(data[i:i + piece])
        else:
            r.received(data)
    except Exception as e:
        return exp, False, True, type(e).__name__
    acc = r.error is None and r.control_line == b""
    ok = True
    if acc and exp:
        val = int(T.split_control_line(s)[0], 16)
        ok = (r.chunk_remainder == val and not r.all_chunks_received) if val > 0 else (r.all_chunks_received and r.chunk_remainder == 0)
    return exp, acc, ok, None


def judge_hline(s):
    from waitress.parser import HTTPRequestParser, ParsingError, TransferEncodingNotImplemented
    exp = T.is_header_line(s)
    p = HTTPRequestParser(adj())
    try:
        p.parse_header(b"GET / HTTP/1.1\r\n" + s)
    except (ParsingError, TransferEncodingNotImplemented):
        return exp, False, True, None
    except Exception as e:
        return exp, False, True, type(e).__name__
    ok = True
    if exp:
        name = s[:s.find(b":")]
        if b"_" not in name:
            key = b2s(name).upper().replace("-", "_")
            ok = p.headers.get(key) == b2s(T.header_line_value(s))
    return exp, True, ok, None


def judge_rline(s):
    from waitress.parser import HTTPRequestParser
    member = T.is_request_line(s)
    p = HTTPRequestParser(adj())
    try:
        p.received(s + b"\r\n\r\n")
    except Exception as e:
        return member, False, True, type(e).__name__
    acc = p.completed and p.error is None and not p.empty
    ok = True
    if acc and member:
        m, t, v = T.request_line_parts(s)
        ok = (p.command == b2s(m) and p.request_uri == b2s(t) and p.version == b2s(v))
    return member, acc, ok, None


def rline_converse_applies(s):
    m, t, _v = T.request_line_parts(s)
    return m == m.upper() and all(0x21 <= c <= 0x7E for c in t) and b"[" not in t and b"]" not in t


JUDGES = {"cl": judge_cl, "ctl": judge_ctl, "hline": judge_hline, "rline": judge_rline}
MEMBER = {
    "cl": lambda s: T.is_header_line(b"Content-Length:" + s) and T.is_content_length(s.strip(b" \t")),
    "ctl": T.is_control_line, "hline": T.is_header_line, "rline": T.is_request_line,
}


def excluded(gate, s):
    if b"\r\n" in s:
        return True
    if gate in ("hline",) and s == b"":
        return True
    if gate == "cl" and s[:1] == b"\n" and False:
        return True
    return False


def check(gate, s, piece=None):
    """-> list of failures for one string"""
    if excluded(gate, s):
        raise C.CaseInvalid("contains CRLF")
    exp, acc, ok, raised = JUDGES[gate](s) if not piece else judge_ctl(s, piece)
    fails = []
    if raised:
        fails.append({"sig": "C10/%s/raises/%s" % (gate, raised), "detail": "%s on %r" % (raised, s[:80])})
    elif acc and not exp:
        fails.append({"sig": "C10/%s/accepts-nonmember/%s" % (gate, feature(gate, s)), "detail": "accepted %r which is not in the grammar" % s[:120]})
    elif exp and not acc:
        conv = True
        if gate == "rline":
            conv = rline_converse_applies(s)
        if gate == "cl":
            conv = len(s.strip(b" \t")) <= 4300
        if conv:
            fails.append({"sig": "C10/%s/rejects-member/%s" % (gate, pattern(s, 6)), "detail": "refused %r which is in the grammar" % s[:120]})
    elif acc and not ok:
        fails.append({"sig": "C10/%s/value-mismatch/%s" % (gate, pattern(s, 6)), "detail": "accepted %r but with a different value than the grammar's" % s[:120]})
    return fails, exp


def run_case(case):
    gate = case.get("gate")
    if gate not in JUDGES or not isinstance(case.get("s"), str):
        raise C.CaseInvalid("gate")
    try:
        s = s2b(case["s"])
    except UnicodeEncodeError:
        raise C.CaseInvalid("latin-1")
    piece = case.get("piece")
    if piece is not None and (gate != "ctl" or not isinstance(piece, int) or piece < 1):
        raise C.CaseInvalid("piece")
    return check(gate, s, piece)[0]


def long_ctl_cases():
    """chunk-size lines far beyond any plausible internal limit (the grammar has none), members and near-members, delivered whole and
    in pieces of 8192 / 1000 / 65536 bytes"""
    for n in (9000, 70000, 140000):
        members = ["0" * n + "5", "5;name=" + "v" * n, "5;q=\"" + "q r" * (n // 3) + "\"", "5" + ";a=b" * (n // 4), "f" * 12 + ";" + "t" * n]
        for m in members:
            for variant in (m, m + "\x01", m[:len(m) // 2] + " " + m[len(m) // 2:]):
                for piece in (None, 8192, 1000, 65536):
                    yield {"gate": "ctl", "s": variant, "piece": piece} if piece else {"gate": "ctl", "s": variant}


# ---------------------------------------------------------------- alphabets / bases
ALPHA = {
    "cl": [b"5", b"0", b"a", b"F", b"x", b"_", b"-", b"+", b".", b",", b" ", b"\t", b"\x0b", b"\x0c", b"\x00", b"\x7f",
           b"\x85", b"\xa0", b"\xb2", b"\n", b"\r"],
    "ctl": [b"5", b"0", b"a", b"F", b"x", b"g", b"_", b"-", b"+", b" ", b"\t", b"\x0b", b"\x0c", b"\x00", b"\x85",
            b"\xa0", b"\xb2", b"\n", b"\r", b";", b"=", b"\"", b"\\", b"t"],
    "hline": [b"q", b"Z", b"-", b"_", b":", b" ", b"\t", b"\x0b", b"\x0c", b"\x00", b"\x7f", b"\x85", b"\xa0", b"\n",
              b"\r", b"(", b"1", b"\"", b"=", b"!"],
    "rline": [b"G", b"g", b" ", b"\t", b"/", b"H", b"T", b"P", b"1", b".", b"\x0b", b"\x0c", b"\x00", b"\x7f", b"\x85",
              b"\n", b"\r", b":", b"%", b"?"],
}
FRAGS = {
    "hline": [b"X-q", b"q", b":", b" ", b"\t", b"v", b"v w", b"\x0b", b"\x00", b"\x85", b"\n", b"\r", b" :", b"_",
              b"\"", b"\xa0", b"\x7f"],
    "rline": [b"GET", b"get", b"G-1", b" ", b"\t", b"/", b"/a%41", b"*", b"HTTP/", b"1", b".", b"1.1", b"\r", b"\n",
              b"\x0b", b"\x00", b"\x85", b"http://h:80/p", b"HTTP/1.1", b"  "],
    "ctl": [b"5", b"1f", b";", b"a", b"=", b"b", b"\"q\"", b"\"\\\"\"", b" ", b"\t", b"\n", b"\r", b"\x00", b"\"", b"\\"],
    "cl": [b"12", b"0", b" ", b"\t", b"+", b"-", b"0x", b"_", b"\x0b", b"\xb2", b"\n", b".0", b"e1", b","],
}
BASES = {
    "cl": [b"5", b"42", b" 7", b"7 ", b"\t10\t", b"000", b"18446744073709551616"],
    "ctl": [b"5", b"1F", b"0", b"a;x", b"5;a=b", b"5;a=\"q r\"", b"0;a;b=c", b"5;a=\"\\\"\"", b"00ff;~=!"],
    "hline": [b"X-q:v", b"X-q: v w ", b"q:", b"X-q:\tv\xe9", b"Zq-1: a:b", b"X_q: v", b"q:  \"x\"  "],
    "rline": [b"GET / HTTP/1.1", b"GET /", b"POST /a?b=c HTTP/1.0", b"OPTIONS * HTTP/1.1", b"G-1 http://h:80/p HTTP/1.1",
              b"GET /%41%zz HTTP/9.9"],
}


def edits(base, alphabet, d):
    """all strings within edit distance d (>=1) of base"""
    cur = {base}
    seen = {base}
    for _ in range(d):
        nxt = set()
        for s in cur:
            n = len(s)
            for i in range(n):
                nxt.add(s[:i] + s[i + 1:])
            for i in range(n + 1):
                for a in alphabet:
                    nxt.add(s[:i] + a + s[i:])
            for i in range(n):
                for a in alphabet:
                    nxt.add(s[:i] + a + s[i + 1:])
        nxt -= seen
        seen |= nxt
        cur = nxt
    seen.discard(base)
    return seen


def nontrivial(gate, s, member):
    if member:
        return True
    m = MEMBER[gate]
    for i in range(len(s)):
        if m(s[:i] + s[i + 1:]):
            return True
    return False


def run_strings(gate, strings, col, sample_every=997):
    n = nt = 0
    labels = {}
    for s in strings:
        if excluded(gate, s):
            continue
        fs, member = check(gate, s)
        n += 1
        if nontrivial(gate, s, member):
            nt += 1
        k = gate + (":member" if member else ":nonmember")
        labels[k] = labels.get(k, 0) + 1
        for f in fs:
            col.fail({"gate": gate, "s": b2s(s)}, f["sig"], f["detail"])
        if n % sample_every == 1 and len(col.samples) < 6:
            col.samples.append({"gate": gate, "s": b2s(s), "member": member})
    col.bulk(n, nt, labels)


def jobs(tier, seed):
    js = []
    L = {"cl": 5, "ctl": 5, "hline": 5, "rline": 5} if tier == "quick" else {"cl": 6, "ctl": 6, "hline": 6, "rline": 6}
    nsh = 16 if tier == "quick" else 64
    for gate in JUDGES:
        for sh in range(nsh):
            js.append({"kind": "exh", "gate": gate, "L": L[gate], "shard": sh, "nshards": nsh})
        for bi in range(len(BASES[gate])):
            js.append({"kind": "edits", "gate": gate, "base": bi, "d": 1 if tier == "quick" else 2})
        js.append({"kind": "sweep", "gate": gate})
        for sh in range(nsh):
            js.append({"kind": "frags", "gate": gate, "L": 4 if tier == "quick" else 5, "shard": sh, "nshards": nsh})
    for sh in range(4):
        js.append({"kind": "long_pieces", "shard": sh, "nshards": 4})
    n = 400 if tier == "quick" else 8000
    for sh in range(8):
        js.append({"kind": "hyp", "n": n, "seed": derive_seed(seed, "c10", sh)})
    return js


def long_strategy():
    digits = st.text(alphabet="0123456789", min_size=1, max_size=4200)
    hexd = st.text(alphabet="0123456789abcdefABCDEF", min_size=1, max_size=3000)
    tok = st.text(alphabet="abcXYZ019!#$%&'*+-.^_`|~", min_size=1, max_size=300)
    junk = st.sampled_from(["", "", " ", "\t", "\x0b", "\n", "\r", "+", "-", "0x", "_", "\xb2", "\x85", "\x00", ";", "=", "\"", "\\", ","])
    qs = st.lists(st.one_of(st.text(alphabet="ab \t!#[]~\xe9", max_size=40), st.sampled_from(["\\\"", "\\\\", "\\a", "\\\t"])),
                  max_size=60).map(lambda xs: "\"" + "".join(xs) + "\"")
    ext = st.lists(st.one_of(tok.map(lambda t: ";" + t), st.tuples(tok, tok).map(lambda p: ";%s=%s" % p),
                             st.tuples(tok, qs).map(lambda p: ";%s=%s" % p)), max_size=40).map("".join)

    def mk(gate, body, j1, j2, pos):
        s = j1 + body + j2 if pos == 0 else body[:len(body) // 2] + j1 + body[len(body) // 2:] + j2
        return {"gate": gate, "s": s}

    cl = st.builds(mk, st.just("cl"), st.one_of(digits, digits.map(lambda d: "0" * 3000 + d[:50])), junk, junk, st.integers(0, 1))
    ctl = st.builds(mk, st.just("ctl"), st.builds(lambda h, e: h + e, hexd, ext), junk, junk, st.integers(0, 1))
    hl = st.builds(mk, st.just("hline"), st.builds(lambda n, v: "X-" + n + ": " + v, tok, st.text(
        alphabet="abc \t\xe9~!\"", max_size=5000)), junk, junk, st.integers(0, 1))
    rl = st.builds(mk, st.just("rline"), st.builds(lambda m, t, v: m + " /" + t + v, st.text(alphabet="GETPOSX-", min_size=1, max_size=40),
                                                    st.text(alphabet="abc/%41?&=;:@~", max_size=6000),
                                                    st.sampled_from([" HTTP/1.1", " HTTP/1.0", "", " HTTP/1.1 ", " HTTP/11"])),
                   junk, junk, st.integers(0, 1))
    return st.one_of(cl, ctl, hl, rl)


def run_job(job, col):
    gate = job.get("gate")
    if job["kind"] == "long_pieces":
        for i, case in enumerate(long_ctl_cases()):
            if i % job["nshards"] == job["shard"]:
                col.record(case, run_case(case), nontrivial=True, labels=("long-control-line", "pieces:%s" % case.get("piece")))
        return
    if job["kind"] == "exh":
        A = ALPHA[gate]

        def gen():
            i = 0
            for ln in range(0, job["L"] + 1):
                for tup in itertools.product(A, repeat=ln):
                    i += 1
                    if i % job["nshards"] == job["shard"]:
                        yield b"".join(tup)

        run_strings(gate, gen(), col)
        col.exhaustive("%s: all strings of length <= %d over a %d-class byte alphabet" % (gate, job["L"], len(A)))
    elif job["kind"] == "edits":
        base = BASES[gate][job["base"]]
        run_strings(gate, sorted(edits(base, ALPHA[gate], job["d"])), col)
        col.exhaustive("%s: all strings within edit distance %d of %d base members" % (gate, job["d"], len(BASES[gate])))
    elif job["kind"] == "sweep":
        allbytes = [bytes([i]) for i in range(256)]
        out = set()
        for base in BASES[gate]:
            out |= edits(base, allbytes, 1)
        run_strings(gate, sorted(out), col)
        col.exhaustive("%s: every one of the 256 byte values inserted / substituted at every position of %d base members"
                       % (gate, len(BASES[gate])))
    elif job["kind"] == "frags":
        Fr = FRAGS[gate]

        def gen():
            i = 0
            for ln in range(1, job["L"] + 1):
                for tup in itertools.product(Fr, repeat=ln):
                    i += 1
                    if i % job["nshards"] == job["shard"]:
                        yield b"".join(tup)

        run_strings(gate, gen(), col)
        col.exhaustive("%s: all products of <= %d grammar fragments (%d fragments)" % (gate, job["L"], len(Fr)))
    elif job["kind"] == "hyp":
        def one(case):
            try:
                s = s2b(case["s"])
                if excluded(case["gate"], s):
                    return
                fs, member = check(case["gate"], s)
            except C.CaseInvalid:
                return
            col.record(case, fs, nontrivial=nontrivial(case["gate"], s, member) if len(s) < 300 else member or True,
                       labels=(case["gate"] + (":long-member" if member else ":long-nonmember"),))

        hyp_run(long_strategy(), one, job["n"], job["seed"])
