"""atheris fuzz target: bytes -> (adjustments, cut pattern, byte stream) -> C01 / C02 / C06 oracles."""
import json
import os
import sys

import atheris

ROOT = os.path.dirname(os.path.dirname(os.path.dirname(os.path.abspath(__file__))))
sys.path.insert(0, ROOT)
from vf import runner  # noqa: E402

runner.setup_path()
with atheris.instrument_imports(include=["waitress"]):
    import waitress.channel  # noqa: F401
    import waitress.parser  # noqa: F401
    import waitress.receiver  # noqa: F401
    import waitress.task  # noqa: F401
    import waitress.utilities  # noqa: F401

from vf import case as C  # noqa: E402
from vf.props import c01, c02, c06  # noqa: E402
from vf.refhttp import request as REQ  # noqa: E402

PID = os.environ.get("VF_FUZZ_PID", "C01")
OUT = os.environ.get("VF_FUZZ_OUT", "/dev/null")
STATS = os.environ.get("VF_FUZZ_STATS", "/dev/null")
KNOWN = set(json.loads(os.environ.get("VF_FUZZ_KNOWN", "[]")))
ADJ = [{}, {}, {"recv_bytes": 7}, {"max_request_header_size": 200}, {"max_request_body_size": 64}, {"channel_request_lookahead": 1},
       {"max_request_body_size": 16, "max_request_header_size": 100}, {"inbuf_overflow": 8}]
S = {"execs": 0, "nontrivial_distinct": 0, "refused": 0, "delivered": 0, "sample": None}
seen = set()
sigs = set()


def flush():
    with open(STATS, "w") as f:
        json.dump(S, f)


def TestOneInput(data):
    if len(data) < 3:
        return
    adj = ADJ[data[0] % len(ADJ)]
    cutsel = data[1]
    stream = data[2:].decode("latin-1")
    S["execs"] += 1
    cuts = []
    n = len(stream)
    if cutsel % 4 == 1 and n > 2:
        cuts = [1 + (cutsel * 7) % (n - 1)]
    elif cutsel % 4 == 2 and n > 4:
        cuts = sorted(set([1 + (cutsel * 5) % (n - 1), 1 + (cutsel * 11) % (n - 1)]))
    elif cutsel % 4 == 3:
        cuts = list(range(1, min(n, 200)))
    case = {"stream": stream, "adj": adj}
    try:
        if PID == "C02":
            case["cuts"] = cuts
            fails = c02.run_case(case)
        elif PID == "C06":
            case["cuts"] = cuts
            fails = c06.run_case(case)
        else:
            fails = c01.run_case(case)
    except C.CaseInvalid:
        return
    h = C.chash(case)
    if h not in seen and len(seen) < 300000:
        seen.add(h)
        items = REQ.parse_stream(data[2:])
        if len(items) >= 2 or any(it.verdict != REQ.VALID or it.framing != "none" for it in items):
            S["nontrivial_distinct"] += 1
            if S["sample"] is None and len(stream) < 300:
                S["sample"] = case
        if any(it.verdict == REQ.MUST_REFUSE for it in items):
            S["refused"] += 1
        if any(it.verdict == REQ.VALID for it in items):
            S["delivered"] += 1
    for f in fails:
        if f["sig"] in KNOWN or f["sig"] in sigs:
            continue
        sigs.add(f["sig"])
        with open(OUT, "a") as fh:
            fh.write(json.dumps({"sig": f["sig"], "detail": f.get("detail", ""), "case": case}) + "\n")
    if S["execs"] % 100 == 0:
        flush()


def main():
    import atexit
    atheris.Setup(sys.argv, TestOneInput)
    try:
        atheris.Fuzz()
    finally:
        flush()


if __name__ == "__main__":
    main()
