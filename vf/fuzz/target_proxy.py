"""atheris fuzz target for C16: bytes -> (trusted kinds, trusted_proxy_count, clear flag, header values) -> the C16 oracle.

Encoding (kept trivially invertible so that corpus files are readable and the seed corpus can be written from
the check's own tables): byte 0 selects the trusted-kind subset, byte 1 the count (low 2 bits) and the clear flag
(bit 7); every following LF-separated line is one header field: its first byte selects the kind (mod 6), the rest
is the field value.  Values that are not field values (CR, LF, NUL inside; not latin-1) are outside the domain.
"""
import json
import os
import sys

import atheris

ROOT = os.path.dirname(os.path.dirname(os.path.dirname(os.path.abspath(__file__))))
sys.path.insert(0, ROOT)
from vf import runner  # noqa: E402

runner.setup_path()
with atheris.instrument_imports(include=["waitress"]):
    import waitress.proxy_headers  # noqa: F401
    import waitress.utilities  # noqa: F401

from vf import case as C  # noqa: E402
from vf.gen import proxy as P  # noqa: E402
from vf.props import c16  # noqa: E402
from vf.fuzz.proxy_codec import decode  # noqa: E402

OUT = os.environ.get("VF_FUZZ_OUT", "/dev/null")
STATS = os.environ.get("VF_FUZZ_STATS", "/dev/null")
KNOWN = set(json.loads(os.environ.get("VF_FUZZ_KNOWN", "[]")))
S = {"execs": 0, "nontrivial_distinct": 0, "refused": 0, "delivered": 0, "sample": None}
seen = set()
sigs = set()


def flush():
    with open(STATS, "w") as f:
        json.dump(S, f)


def TestOneInput(data):
    case = decode(data)
    if case is None:
        return
    S["execs"] += 1
    try:
        fails, nontrivial, labels = c16.run_case_full(case)
    except C.CaseInvalid:
        return
    h = C.chash(case)
    if h not in seen and len(seen) < 300000:
        seen.add(h)
        if nontrivial:
            S["nontrivial_distinct"] += 1
            if S["sample"] is None and len(data) < 120:
                S["sample"] = case
        if "status:400" in labels:
            S["refused"] += 1
        if "status:200" in labels:
            S["delivered"] += 1
    for f in fails:
        if f["sig"] in KNOWN or f["sig"] in sigs:
            continue
        sigs.add(f["sig"])
        with open(OUT, "a") as fh:
            fh.write(json.dumps({"sig": f["sig"], "detail": f.get("detail", ""), "case": case}) + "\n")
    if S["execs"] % 200 == 0:
        flush()


def main():
    atheris.Setup(sys.argv, TestOneInput)
    try:
        atheris.Fuzz()
    finally:
        flush()


if __name__ == "__main__":
    main()
