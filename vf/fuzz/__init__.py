"""E5 - coverage-guided fuzzing (atheris / libFuzzer) with the property oracles inside the target.

run_fuzz_job(job, col, pid) starts `python -m vf.fuzz.target` in a child process (libFuzzer owns the process),
with a seed corpus of grammar sentences and a token dictionary; the target never crashes on a property failure:
it appends (signature, case) records to a results file and goes on, so one shallow failure does not end the
campaign.  Campaigns are pinned only approximately by -seed; the saved case is the reproducible unit.
"""
import json
import os
import shutil
import subprocess
import sys
import tempfile

ROOT = os.path.dirname(os.path.dirname(os.path.dirname(os.path.abspath(__file__))))
DEPS = os.path.join(ROOT, ".deps")


def available():
    return os.path.isdir(os.path.join(DEPS, "atheris"))


def _http_corpus(corpus, job):
    from ..gen import http as G
    n = 0
    if job.get("seed_corpus", True):
        for base in G.base_sentences():
            for follower in ("", G.FOLLOWER):
                with open(os.path.join(corpus, "s%03d" % n), "wb") as f:
                    f.write(b"\x00\x00" + (G.render(base) + follower).encode("latin-1"))
                n += 1
    return ["GET ", "POST ", "HEAD ", " HTTP/1.1\\x0d\\x0a", " HTTP/1.0\\x0d\\x0a", "\\x0d\\x0a", "\\x0d\\x0a\\x0d\\x0a", "Content-Length: ",
            "Transfer-Encoding: chunked\\x0d\\x0a", "Connection: close\\x0d\\x0a", "Connection: keep-alive\\x0d\\x0a", "Expect: 100-continue\\x0d\\x0a",
            "Host: h\\x0d\\x0a", "0\\x0d\\x0a\\x0d\\x0a", ";a=b", ";a=\\\"q\\\"", "chunked", "gzip", ", ", "\\x0a", "\\x0d", "\\x09", "\\x0b", "\\x00",
            "http://h/", "*", "Content_Length: ", "Transfer_Encoding: ", "5\\x0d\\x0ahello\\x0d\\x0a"]


def _proxy_corpus(corpus, job):
    from ..props import c16
    from . import proxy_codec
    if job.get("seed_corpus", True):
        n = 0
        for c in list(c16.must400_table())[::2] + list(c16.degenerate_table())[::40]:
            try:
                raw = proxy_codec.encode(c)
            except (UnicodeEncodeError, ValueError):
                continue
            with open(os.path.join(corpus, "p%04d" % n), "wb") as f:
                f.write(raw)
            n += 1
    return ["for=", "host=", "proto=", "by=", "proto=https", "proto=http", ";", ", ", ",", "\\\"", "[::1]", "[", "]", ":80", ":", "192.0.2.1", "example.com",
            "\\x0a\\x00", "\\x0a\\x01", "\\x0a\\x02", "\\x0a\\x03", "\\x0a\\x04", "\\x0a\\x05", "https", "unknown", "_hidden", "\\\\", "=", " ", "\\x09"]


def run_fuzz_job(job, col, pid):
    if not available():
        col.labels["fuzz-skipped-atheris-missing"] += 1
        return
    work = tempfile.mkdtemp(prefix="vf-fuzz-")
    try:
        corpus = os.path.join(work, "corpus")
        os.makedirs(corpus)
        dict_path = os.path.join(work, "tokens.dict")
        if pid == "C16":
            module, toks = "vf.fuzz.target_proxy", _proxy_corpus(corpus, job)
        else:
            module, toks = "vf.fuzz.target", _http_corpus(corpus, job)
        with open(dict_path, "w") as f:
            for i, t in enumerate(toks):
                f.write('kw%d="%s"\n' % (i, t))
        out = os.path.join(work, "results.jsonl")
        stats = os.path.join(work, "stats.json")
        env = dict(os.environ, PYTHONPATH=DEPS + os.pathsep + ROOT, VF_FUZZ_OUT=out, VF_FUZZ_STATS=stats, VF_FUZZ_PID=pid,
                   VF_FUZZ_KNOWN=json.dumps(sorted(col.known_sigs)))
        cmd = [sys.executable, "-m", module, corpus, "-runs=%d" % job["runs"], "-seed=%d" % (job["seed"] % (2 ** 31 - 1) + 1),
               "-max_len=%d" % job.get("max_len", 1500), "-dict=" + dict_path, "-artifact_prefix=" + work + "/", "-print_final_stats=1"]
        cmd.append("-timeout=%d" % job.get("unit_timeout", 30))
        if job.get("max_total_time"):
            cmd.append("-max_total_time=%d" % job["max_total_time"])
        p = subprocess.run(cmd, cwd=ROOT, env=env, stdout=subprocess.PIPE, stderr=subprocess.STDOUT, text=True, errors="replace")
        st = {}
        if os.path.exists(stats):
            st = json.load(open(stats))
        col.bulk(st.get("execs", 0), st.get("nontrivial_distinct", 0), {"fuzz-execs": st.get("execs", 0), "fuzz-refused": st.get("refused", 0),
                                                                      "fuzz-delivered": st.get("delivered", 0)},
                 sample=st.get("sample"))
        col.extra["fuzz_cov"] = [l for l in p.stdout.splitlines() if "cov:" in l][-1:] if p.stdout else []
        if os.path.exists(out):
            for line in open(out):
                rec = json.loads(line)
                col.fail(rec["case"], rec["sig"], rec.get("detail", ""))
        if p.returncode != 0 and "libFuzzer: timeout" in (p.stdout or ""):
            # one input kept the target busy for more than unit_timeout seconds: a hang of the code under test, reported as a failure
            import glob
            arts = sorted(glob.glob(os.path.join(work, "timeout-*")))
            raw = open(arts[0], "rb").read() if arts else b""
            case = None
            if pid == "C16":
                from . import proxy_codec
                case = proxy_codec.decode(raw)
            elif len(raw) >= 3:
                case = {"stream": raw[2:].decode("latin-1"), "adj": {}}
            col.fail(case or {"raw": raw.decode("latin-1")}, "%s/hang" % pid, "a %d-byte fuzz input kept the code under test busy for more than %d s" % (
                len(raw), job.get("unit_timeout", 30)))
            return
        if p.returncode != 0 and not os.path.exists(stats):
            raise RuntimeError("fuzz target failed to run:\n" + p.stdout[-1500:])
        if p.returncode != 0 and "ERROR: libFuzzer" in p.stdout:
            # an uncaught exception inside the target = harness error of the fuzz job, reported as such
            raise RuntimeError("fuzz target crashed:\n" + p.stdout[-1500:])
    finally:
        shutil.rmtree(work, ignore_errors=True)
