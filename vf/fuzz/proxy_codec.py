"""bytes <-> C16 case (see target_proxy); no atheris import so that the driver can write the seed corpus."""
from ..gen import proxy as P

SUBSETS = P.allowed_subsets()


def decode(data):
    if len(data) < 3:
        return None
    tph = SUBSETS[data[0] % len(SUBSETS)]
    count = 1 + (data[1] & 3)
    clear = not (data[1] & 0x80)
    hdrs = {}
    for line in data[2:].split(b"\n")[:8]:
        if len(line) < 1:
            continue
        k = P.KINDS[line[0] % 6]
        v = line[1:].decode("latin-1").strip(" \t")
        if "\r" in v or "\x00" in v:
            return None
        # a repeated field reaches the middleware joined with ", " (that is what the request parser does)
        hdrs[k] = (hdrs[k] + ", " + v) if k in hdrs else v
    if not hdrs:
        return None
    return {"hdrs": hdrs, "tph": tph, "count": count, "clear": clear}


def encode(case):
    b0 = SUBSETS.index(case["tph"])
    b1 = (case["count"] - 1) & 3 | (0 if case.get("clear", True) else 0x80)
    lines = []
    for k, v in case["hdrs"].items():
        if "\n" in v:
            raise ValueError("LF")
        lines.append(bytes([P.KINDS.index(k)]) + v.encode("latin-1"))
    return bytes([b0, b1]) + b"\n".join(lines)
