"""known_findings.json handling.  The file is committed and NEVER written at run time.

{"findings": [{"property", "signature", "what", "witness"}...],
 "fixed":    [{"property", "commit", "what", "line"}...]}     # informational; suppresses nothing
"""
import json
import os

ROOT = os.path.dirname(os.path.dirname(os.path.abspath(__file__)))
PATH = os.path.join(ROOT, "known_findings.json")


def load():
    if not os.path.exists(PATH):
        return {"findings": [], "fixed": []}
    with open(PATH) as f:
        return json.load(f)


def known_for(pid):
    return [e for e in load().get("findings", []) if e["property"] == pid]
