"""Schedule specifications as data (JSON) + Hypothesis strategies for them."""
from hypothesis import strategies as st

from . import simsched


def make_source(spec):
    spec = spec or {"kind": "default"}
    k = spec.get("kind", "default")
    if k == "default":
        return simsched.Source()
    if k == "sparse":
        return simsched.Sparse(spec.get("preempts", []), spec.get("forced", []))
    if k == "random":
        return simsched.RandomSource(spec.get("seed", 0), spec.get("p", 0.15))
    if k == "hot":
        return simsched.HotRandom(spec.get("seed", 0), spec.get("p_hot", 0.3), spec.get("p_cold", 0.01))
    if k == "stall":
        return simsched.Stall(spec.get("seed", 0), spec.get("stalls", 1), spec.get("est_hot", 80), spec.get("max_dur", 200), spec.get("p", 0.05))
    if k == "pct":
        return simsched.PCT(spec.get("seed", 0), spec.get("depth", 2), spec.get("est", 400))
    if k == "replay":
        return simsched.Replay(spec.get("choices", []))
    raise ValueError(k)


def replay_spec(trace):
    return {"kind": "replay", "choices": list(trace)}


def schedule_strategy(max_gap=120, max_preempts=4):
    sparse = st.builds(lambda p, f: {"kind": "sparse", "preempts": p, "forced": f},
                       st.lists(st.tuples(st.integers(0, max_gap), st.integers(0, 3)).map(list), min_size=0, max_size=max_preempts),
                       st.lists(st.integers(0, 3), max_size=6))
    rnd = st.builds(lambda s, p: {"kind": "random", "seed": s, "p": p}, st.integers(0, 10 ** 9), st.sampled_from([0.02, 0.05, 0.1, 0.2, 0.4]))
    pct = st.builds(lambda s, d, e: {"kind": "pct", "seed": s, "depth": d, "est": e}, st.integers(0, 10 ** 9), st.integers(1, 3),
                    st.sampled_from([100, 300, 800]))
    hot = st.builds(lambda s, ph, pc: {"kind": "hot", "seed": s, "p_hot": ph, "p_cold": pc}, st.integers(0, 10 ** 9),
                    st.sampled_from([0.15, 0.3, 0.5]), st.sampled_from([0.0, 0.01, 0.03]))
    stall = st.builds(lambda s, n, e, d: {"kind": "stall", "seed": s, "stalls": n, "est_hot": e, "max_dur": d}, st.integers(0, 10 ** 9),
                      st.sampled_from([1, 1, 2]), st.sampled_from([20, 40, 80, 160]), st.sampled_from([60, 200, 400]))
    return st.one_of(sparse, rnd, pct, hot, hot, stall)
