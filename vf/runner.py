"""Check runner: tiers, VERIF_SEED plumbing, 16-way sharding, evidence, replay, shrink.

A property module (vf/props/cNN.py) exposes

    PID, LEVEL, RULE, ASSUMPTIONS, TECHNIQUE
    jobs(tier, seed)      -> list of JSON-able job dicts (each runs in its own process)
    run_job(job, col)     -> None; records into the Collector `col`
    run_case(case)        -> list of failures  [{"sig": str, "detail": str}, ...]
                             (pure function of the case and the code under $VERIF_REPO/src)

Exit codes: 0 held / 1 violation (line "VIOLATION property=<id> replay=<path>") / 2 harness error.
"""
import concurrent.futures as cf
import importlib
import json
import multiprocessing
import os
import sys
import time
import traceback
from collections import Counter

from . import case as C
from . import findings as F

ROOT = os.path.dirname(os.path.dirname(os.path.abspath(__file__)))
NPROC = int(os.environ.get("VERIF_NPROC", "16"))
MAX_SAMPLES = 6
MAX_HASHES = 400000


def repo_src():
    return os.path.join(os.environ.get("VERIF_REPO", "/repo"), "src")


def setup_path():
    src = repo_src()
    if sys.path[0] != src:
        sys.path.insert(0, src)
    # make sure a stale import from the editable install can not win
    for name in list(sys.modules):
        if name == "waitress" or name.startswith("waitress."):
            mod = sys.modules[name]
            f = getattr(mod, "__file__", "") or ""
            if not f.startswith(src):
                del sys.modules[name]


class Collector:
    """Per-job accumulator; returned (as a dict) to the parent."""

    def __init__(self, pid, known_sigs=()):
        self.pid = pid
        self.known_sigs = set(known_sigs)
        self.evaluations = 0
        self.hashes = set()
        self.bulk_nontrivial = 0
        self.labels = Counter()
        self.samples = []
        self.failures = {}  # sig -> {"count", "case", "detail", "size"}
        self.excluded_known = 0
        self.budget_exhausted = False
        self.exhaustive_scopes = []
        self.extra = {}

    # -- recording ---------------------------------------------------------
    def record(self, case, failures=(), nontrivial=True, labels=()):
        self.evaluations += 1
        if nontrivial and len(self.hashes) < MAX_HASHES:
            self.hashes.add(C.chash(case))
        for l in labels:
            self.labels[l] += 1
        if len(self.samples) < MAX_SAMPLES and (nontrivial or not self.samples):
            self.samples.append(case)
        for f in failures:
            self.fail(case, f["sig"], f.get("detail", ""))

    def bulk(self, evaluations, nontrivial_distinct, labels=None, sample=None):
        """For enumerations whose cases are distinct by construction."""
        self.evaluations += evaluations
        self.bulk_nontrivial += nontrivial_distinct
        if labels:
            self.labels.update(labels)
        if sample is not None and len(self.samples) < MAX_SAMPLES:
            self.samples.append(sample)

    def fail(self, case, sig, detail=""):
        if sig in self.known_sigs:
            self.excluded_known += 1
            self.labels["excluded_known:" + sig] += 1
            return
        size = len(C.dumps(case))
        cur = self.failures.get(sig)
        if cur is None:
            self.failures[sig] = {"count": 1, "case": case, "detail": detail, "size": size}
        else:
            cur["count"] += 1
            if size < cur["size"]:
                cur.update(case=case, detail=detail, size=size)

    def exhaustive(self, scope):
        self.exhaustive_scopes.append(scope)

    def result(self):
        return {
            "evaluations": self.evaluations,
            "hashes": list(self.hashes),
            "bulk_nontrivial": self.bulk_nontrivial,
            "labels": dict(self.labels),
            "samples": self.samples,
            "failures": self.failures,
            "excluded_known": self.excluded_known,
            "budget_exhausted": self.budget_exhausted,
            "exhaustive_scopes": self.exhaustive_scopes,
            "extra": self.extra,
        }


def load(pid):
    setup_path()
    return importlib.import_module("vf.props." + pid.lower())


def _job_entry(pid, job, known_sigs):
    """Runs in a fresh process."""
    os.environ.setdefault("PYTHONHASHSEED", "0")
    mod = load(pid)
    col = Collector(pid, known_sigs)
    kind = job.get("kind")
    if kind == "_corpus":
        for name, case in job["cases"]:
            try:
                fs = mod.run_case(case)
            except C.CaseInvalid:
                continue
            col.record(case, fs, nontrivial=True, labels=("corpus",))
    elif kind == "_known":
        out = []
        for ent in job["entries"]:
            fs = mod.run_case(ent["witness"])
            out.append(any(f["sig"] == ent["signature"] for f in fs))
            # a witness may also expose *other* failures: those are reported
            for f in fs:
                if f["sig"] != ent["signature"]:
                    col.fail(ent["witness"], f["sig"], f.get("detail", ""))
        col.extra["known_reproduced"] = out
    elif kind == "_shrink":
        sig = job["sig"]

        def still(c):
            try:
                return any(f["sig"] == sig for f in mod.run_case(c))
            except C.CaseInvalid:
                return False

        best = C.shrink(job["case"], still, budget_s=job.get("budget_s", 30))
        col.extra["shrunk"] = best
        try:
            col.extra["detail"] = [f.get("detail", "") for f in mod.run_case(best) if f["sig"] == sig][0]
        except Exception:
            col.extra["detail"] = None
    else:
        mod.run_job(job, col)
    return col.result()


def corpus_cases(pid):
    d = os.path.join(ROOT, "corpus", pid)
    out = []
    if os.path.isdir(d):
        for fn in sorted(os.listdir(d)):
            if fn.endswith(".json"):
                with open(os.path.join(d, fn)) as f:
                    j = json.load(f)
                out.append((fn, j["case"] if isinstance(j, dict) and "case" in j else j))
    return out


def main(argv):
    if len(argv) < 3:
        print("usage: check <ID> quick|thorough | check <ID> --replay <file>", file=sys.stderr)
        return 2
    pid = argv[1].upper()
    seed = int(os.environ.get("VERIF_SEED", "1") or "1")
    try:
        mod = load(pid)
    except Exception:
        traceback.print_exc()
        print("HARNESS-ERROR property=%s cannot load check module" % pid)
        return 2

    if argv[2] == "--replay":
        with open(argv[3]) as f:
            j = json.load(f)
        case = j["case"] if isinstance(j, dict) and "case" in j else j
        fs = mod.run_case(case)
        for f in fs:
            print("FAIL %s: %s" % (f["sig"], f.get("detail", "")))
        if fs:
            print("VIOLATION property=%s replay=%s" % (pid, argv[3]))
            return 1
        print("replay: property %s held on %s" % (pid, argv[3]))
        return 0

    tier = argv[2]
    if tier not in ("quick", "thorough"):
        print("tier must be quick or thorough", file=sys.stderr)
        return 2
    t0 = time.time()
    known = F.known_for(pid)
    known_sigs = [e["signature"] for e in known]
    jobs = list(mod.jobs(tier, seed))
    cc = corpus_cases(pid)
    if cc:
        jobs.insert(0, {"kind": "_corpus", "cases": cc})
    if known:
        jobs.insert(0, {"kind": "_known", "entries": known})

    ctx = multiprocessing.get_context("spawn")
    results = []
    harness_errors = []
    with cf.ProcessPoolExecutor(max_workers=NPROC, mp_context=ctx, max_tasks_per_child=1) as ex:
        # _known entries must see *no* exclusion for other sigs; generated jobs exclude known sigs
        futs = {ex.submit(_job_entry, pid, j, known_sigs): j for j in jobs}
        for fut in cf.as_completed(futs):
            j = futs[fut]
            try:
                results.append((j, fut.result()))
            except Exception as e:  # harness error, never a violation
                harness_errors.append((j, "".join(traceback.format_exception(e))))

    # ---- merge ------------------------------------------------------------
    evaluations = 0
    hashes = set()
    bulk = 0
    labels = Counter()
    samples = []
    failures = {}
    excluded = 0
    budget_exhausted = False
    scopes = []
    known_repro = []
    for j, r in results:
        evaluations += r["evaluations"]
        hashes.update(r["hashes"])
        bulk += r["bulk_nontrivial"]
        labels.update(r["labels"])
        for s in r["samples"]:
            if len(samples) < MAX_SAMPLES * 2:
                samples.append(s)
        excluded += r["excluded_known"]
        budget_exhausted |= r["budget_exhausted"]
        scopes += r["exhaustive_scopes"]
        if "known_reproduced" in r["extra"]:
            known_repro = r["extra"]["known_reproduced"]
        for sig, f in r["failures"].items():
            cur = failures.get(sig)
            if cur is None:
                failures[sig] = dict(f)
            else:
                cur["count"] += f["count"]
                if f["size"] < cur["size"]:
                    cur.update(case=f["case"], detail=f["detail"], size=f["size"])

    # ---- known findings ---------------------------------------------------
    for ent, rep in zip(known, known_repro):
        if rep:
            print("KNOWN-FINDING: property=%s %s [%s]" % (pid, ent["what"], ent["signature"]))
        else:
            print("note: listed finding no longer reproduces: %s" % ent["signature"])

    # ---- unknown failures: shrink, write replay, report ------------------------
    viol = 0
    rdir = os.environ.get("VERIF_REPLAY_DIR") or os.path.join(ROOT, "replays")
    os.makedirs(rdir, exist_ok=True)
    if failures:
        shrink_budget = float(os.environ.get("VERIF_SHRINK_BUDGET") or (20 if tier == "quick" else 120))
        sjobs = [{"kind": "_shrink", "sig": s, "case": f["case"], "budget_s": shrink_budget}
                 for s, f in sorted(failures.items())][:16]
        shrunk = {}
        with cf.ProcessPoolExecutor(max_workers=NPROC, mp_context=ctx, max_tasks_per_child=1) as ex:
            futs = {ex.submit(_job_entry, pid, j, []): j for j in sjobs}
            for fut in cf.as_completed(futs):
                j = futs[fut]
                try:
                    ex_ = fut.result()["extra"]
                    shrunk[j["sig"]] = ex_["shrunk"]
                    if ex_.get("detail"):
                        failures[j["sig"]]["detail"] = ex_["detail"]
                except Exception:
                    shrunk[j["sig"]] = j["case"]
        for sig, f in sorted(failures.items()):
            case = shrunk.get(sig, f["case"])
            fname = "%s-%s.json" % (pid, C.hexhash([sig, case]))
            path = os.path.join("replays", fname) if rdir.startswith(ROOT) else os.path.join(rdir, fname)
            with open(os.path.join(rdir, fname), "w") as fh:
                json.dump({"property": pid, "signature": sig, "detail": f["detail"],
                           "count_in_run": f["count"], "tier": tier, "seed": seed,
                           "case": case, "unshrunk_case": f["case"]}, fh, indent=1, sort_keys=True)
            print("FAIL %s (x%d): %s" % (sig, f["count"], f["detail"][:300]))
            print("VIOLATION property=%s replay=%s" % (pid, path))
            viol += 1

    # ---- evidence -----------------------------------------------------------
    wall = time.time() - t0
    distinct = len(hashes) + bulk
    cov = {
        "evaluations": evaluations,
        "distinct_nontrivial": distinct,
        "rule": mod.RULE,
        "samples": samples[:MAX_SAMPLES * 2],
        "labels": dict(sorted(labels.items(), key=lambda kv: -kv[1])[:60]),
        "jobs": len(jobs),
        "excluded_known": excluded,
        "budget_exhausted": budget_exhausted,
        "known_findings_listed": len(known),
        "known_findings_reproduced": sum(1 for x in known_repro if x),
    }
    if scopes:
        cov["exhaustive"] = True
        cov["exhaustive_scope"] = sorted(set(scopes))
    ev = {
        "property_id": pid,
        "tier": tier,
        "seed": seed,
        "level": mod.LEVEL,
        "coverage": cov,
        "assumptions": list(getattr(mod, "ASSUMPTIONS", [])),
        "wall_s": round(wall, 2),
        "violations": viol,
    }
    edir = os.environ.get("VERIF_EVIDENCE_DIR") or os.path.join(ROOT, "evidence")
    os.makedirs(edir, exist_ok=True)
    with open(os.path.join(edir, pid + ".json"), "w") as fh:
        json.dump(ev, fh, indent=1, sort_keys=True)

    print("%s %s seed=%d: %d evaluations, %d distinct non-trivial, %d jobs, %d excluded-known, "
          "%d violation signature(s), %.1fs" % (pid, tier, seed, evaluations, distinct, len(jobs),
                                                excluded, viol, wall))
    if not viol and not harness_errors and (evaluations == 0 or distinct < 2 or labels.get("outside-domain", 0) > evaluations):
        # a run that judged (almost) nothing is a broken check, not a pass
        print("HARNESS-ERROR property=%s vacuous run: %d evaluations, %d distinct non-trivial, %d generated cases outside the domain" % (
            pid, evaluations, distinct, labels.get("outside-domain", 0)))
        return 2
    if harness_errors:
        for j, tb in harness_errors[:3]:
            print("HARNESS-ERROR in job %r:\n%s" % ({k: v for k, v in j.items() if k != "cases"}, tb))
        return 2 if not viol else 1
    return 1 if viol else 0


# ---- hypothesis helper ----------------------------------------------------------
def hyp_run(strategy, fn, n, seed_value, max_size_hint=None):
    """Run `fn(case)` on n generated cases.  fn must not raise for property
    failures (collect, then shrink); anything it raises is a harness error."""
    import hypothesis
    from hypothesis import HealthCheck, Phase, given, settings

    @hypothesis.seed(seed_value)
    @settings(max_examples=n, database=None, deadline=None, phases=[Phase.generate],
              suppress_health_check=list(HealthCheck), derandomize=False,
              report_multiple_bugs=False)
    @given(strategy)
    def _t(case):
        fn(case)

    _t()


def derive_seed(seed, *parts):
    import hashlib
    h = hashlib.blake2b(repr((seed,) + parts).encode(), digest_size=8).digest()
    return int.from_bytes(h, "big") & 0x7FFFFFFFFFFFFFFF
