"""Shared observation helpers on top of simnet: recording applications and `observe()`."""
from . import simnet
from .case import b2s, s2b
from .refhttp import response as RESP


class RecApp:
    """Echo-style application that records every call (environ snapshot + body read)."""

    def __init__(self, read_body=True):
        self.calls = []
        self.read_body = read_body

    def __call__(self, environ, start_response):
        idx = len(self.calls)
        body = environ["wsgi.input"].read() if self.read_body else b""
        rec = {
            "idx": idx,
            "method": environ.get("REQUEST_METHOD"),
            "uri": environ.get("REQUEST_URI"),
            "proto": environ.get("SERVER_PROTOCOL"),
            "body": body,
            "environ": {k: v for k, v in environ.items() if isinstance(v, str)},
            "env_types": {k: type(v).__name__ for k, v in environ.items()},
        }
        self.calls.append(rec)
        out = b"call=%d" % idx
        hdrs = [("Content-Type", "text/plain"), ("Content-Length", str(len(out))), ("X-Call", str(idx))]
        start_response("200 OK", hdrs)
        if environ.get("REQUEST_METHOD") == "HEAD":
            return []
        return [out]


class Observation:
    def __init__(self):
        self.calls = []
        self.wire = b""
        self.responses = []
        self.problem = None
        self.closed = False
        self.close_calls = 0
        self.handle_errors = []
        self.logs = []
        self.exception = None
        self.recv_calls = 0
        self.recv_bytes = 0
        self.unread = 0
        self.spin = False

    def reparse(self, methods):
        """parse the wire again knowing the request methods (a refused HEAD request has no application call to tell)"""
        ms = [m if isinstance(m, (bytes, type(None))) else s2b(m) for m in methods]
        self.responses, self.parsed_upto, self.problem = RESP.parse_responses(self.wire, ms + [None] * 4, eof=self.closed)
        return self

    def reparse_tolerant(self, methods):
        """like reparse, but an error response may carry a body even when the reference knows the request was HEAD
        (the server refuses some messages before it has learnt the method): try again treating one request as non-HEAD"""
        methods = list(methods)
        self.reparse(methods)
        if not self.problem:
            return self
        for k in range(len(methods)):
            if methods[k] in (b"HEAD", "HEAD"):
                alt = list(methods)
                alt[k] = None
                self.reparse(alt)
                if not self.problem and self.responses and not any(r.get(b"x-call") for r in self.responses[-1:]):
                    return self
        # requests the reference could not delimit (everything behind a message whose framing it cannot know) have no known method:
        # any of them may have been a HEAD request
        import itertools
        unknown = [k for k in range(len(methods)) if methods[k] is None] + list(range(len(methods), len(methods) + 4))
        unknown = unknown[:5]
        for r_ in range(1, len(unknown) + 1):
            for combo in itertools.combinations(unknown, r_):
                alt = list(methods) + [None] * 4
                for k in combo:
                    alt[k] = b"HEAD"
                self.reparse(alt)
                if not self.problem:
                    return self
        return self.reparse(methods)

    def summary(self):
        """application-visible outcome, comparable across segmentations"""
        return {
            "calls": [(c["method"], c["uri"], c["proto"], sorted(c["environ"].items()), b2s(c["body"])) for c in self.calls],
            "responses": [(r.status, r.interim, b2s(r.body) if not r.interim else "") for r in self.responses],
            "closed": self.closed,
            "problem": self.problem,
            "handle_errors": [(a, b) for a, b, _c, _d in self.handle_errors],
            "spin": self.spin,
        }


def adj_default(name):
    """default of an adjustment, read from the code under test (no property fixes the shipped defaults)"""
    from waitress.adjustments import Adjustments
    return getattr(Adjustments, name)


def observe(segments, adj=None, eof=True, app=None, unix=False, send_caps=None, keep=False, addr=("127.0.0.1", 40000),
            max_turns=3000, nonquiescence_is_observation=False):
    """Feed `segments` (list of bytes; None = wait for quiescence before sending the rest) to a fresh
    single-thread world; returns an Observation.  Each segment is one recv() at most."""
    app = app or RecApp()
    o = Observation()
    total = sum(len(x) for x in segments if x)
    rb = max(1, int((adj or {}).get("recv_bytes", adj_default("recv_bytes"))))
    max_turns = max(max_turns, 400 + 3 * (total // rb) + 2 * len(segments))
    w = simnet.World(app, adj=adj, unix=unix)
    try:
        c = w.connect(addr)
        c.send_caps = send_caps
        try:
            group = []
            for seg in list(segments) + [None]:
                if seg is None:
                    c.inq.extend(group)
                    group = []
                    w.run(max_turns)
                else:
                    if seg:
                        group.append(seg)
            if eof and not c.closed:
                c.in_eof = True
                w.run(max_turns)
        except simnet.SimWouldBlock:
            raise
        except simnet.HarnessError as e:
            if not nonquiescence_is_observation:
                raise
            o.exception = ("NoQuiescence", str(e), "")
        except BaseException as e:  # exceptions escaping the loop are observations, not harness errors
            import traceback
            o.exception = (type(e).__name__, str(e)[:200], traceback.format_exc()[-1200:])
        o.calls = app.calls if hasattr(app, "calls") else []
        o.wire = bytes(c.client_rx) + bytes(c.kbuf)
        o.closed = c.closed
        o.close_calls = len(c.close_calls)
        o.handle_errors = list(w.handle_errors)
        o.spin = w.spin
        o.pending_out = sum(getattr(ch, 'total_outbufs_len', 0) for ch in list(w.map.values()))
        o.logs = list(w.logs)
        o.recv_calls = c.calls.get("recv", 0)
        o.recv_log = list(c.recv_log)
        o.unread = sum(len(x) for x in c.inq)
        methods = [s2b(cc["method"]) if isinstance(cc["method"], str) else None for cc in o.calls]
        o.responses, o.parsed_upto, o.problem = RESP.parse_responses(o.wire, methods + [None] * 4, eof=c.closed)
        if keep:
            o.world = w
            o.conn = c
    finally:
        if not keep:
            w.close()
    return o
