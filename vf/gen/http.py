"""E4 - HTTP request grammar, positional mutators and segmentations (Hypothesis strategies).

A sentence is a list of tokens [kind, text]; text is a latin-1 str.  Kinds mark grammar
positions so that mutators can be applied "at every position":

  method sp target version crlf  fname colon fvalue  clnum tevalue
  csize cext cdata cend  tline  endhead endtrailer
"""
from hypothesis import strategies as st

CRLF = "\r\n"


def render(tokens):
    return "".join(t[1] for t in tokens)


# ------------------------------------------------------------------ building blocks
METHODS = ["GET", "POST", "PUT", "HEAD", "DELETE", "OPTIONS", "PATCH", "M-SEARCH", "X", "PROPFIND"]
TARGETS = ["/", "/a", "/a/b?x=1&y=2", "/%41%2f", "/a%zz", "//double", "/x;p=1", "*", "http://example.com/p?q=1",
           "http://example.com:8080/", "https://h/", "/\xe9t\xe9", "/a#frag", "/?", "/a%20b", "/%e2%82%ac"]
NAMES = ["Host", "X-Foo", "Accept", "User-Agent", "X_Under", "Content-Type", "Cookie", "X-Forwarded-For",
         "Remote-Addr", "Server-Name", "x-lower", "X-A-B-C", "Wsgi.Input", "X~!#$%&'*+.^`|", "A", "Content_Length",
         "Transfer_Encoding", "Content_Type", "Trailer", "TE", "Upgrade", "Keep-Alive", "Forwarded", "Script-Name"]
VALUES = ["", "a", "text/plain", "a b", "a  b\tc", "\xe9\xff", "1, 2", "example.com", "x" * 40, "\"q\"", "a:b", "=;,",
          "100", "chunked", "close", "GET / HTTP/1.1"]
SMUGGLE = ["GET /smuggled HTTP/1.1\r\nHost: evil\r\n\r\n", "0\r\n\r\nGET /s HTTP/1.1\r\n\r\n",
           "POST /s HTTP/1.1\r\nContent-Length: 5\r\n\r\nhello"]


@st.composite
def body_bytes(draw, max_size=64):
    kind = draw(st.integers(0, 9))
    if kind == 0:
        return draw(st.sampled_from(SMUGGLE))
    if kind == 1:
        return ""
    if kind == 2:
        n = draw(st.sampled_from([8191, 8192, 8193, 9000, 20000]))
        return ("abcdefghijklmnopqrstuvwxyz012345" * (n // 32 + 1))[:n]
    return draw(st.text(alphabet=st.characters(min_codepoint=0, max_codepoint=255), max_size=max_size))


def field(name, value, pre=" ", post=""):
    return [["fname", name], ["colon", ":"], ["ows", pre], ["fvalue", value], ["ows", post], ["crlf", CRLF]]


@st.composite
def header_field(draw, obs_fold=True):
    name = draw(st.sampled_from(NAMES))
    value = draw(st.one_of(st.sampled_from(VALUES),
                           st.text(alphabet=st.sampled_from(list("abcXYZ019 \t,;=\"/\xe9\xa0")), max_size=12)))
    value = value.strip(" \t")
    if obs_fold and draw(st.integers(0, 11)) == 0 and value:
        # obs-fold inside the value
        cut = draw(st.integers(0, len(value)))
        value = value[:cut].rstrip(" \t") + "\r\n" + draw(st.sampled_from([" ", "\t", "  "])) + value[cut:].lstrip(" \t")
        if value.startswith("\r\n"):
            value = "a" + value
    pre = draw(st.sampled_from([" ", "", "\t", "  "]))
    post = draw(st.sampled_from(["", "", " ", "\t "]))
    return field(name, value, pre, post)


@st.composite
def chunked_body(draw, body):
    toks = []
    data = body
    exts = ["", "", "", ";a", ";a=b", ";a=\"q s\"", ";a=b;c", ";x=\"\\\"\"", ";~=!"]
    while data:
        n = draw(st.integers(1, max(1, len(data))))
        part, data = data[:n], data[n:]
        size = "%x" % len(part)
        if draw(st.booleans()):
            size = size.upper()
        if draw(st.integers(0, 5)) == 0:
            size = "0" * draw(st.integers(1, 3)) + size
        toks += [["csize", size], ["cext", draw(st.sampled_from(exts))], ["ccrlf", CRLF], ["cdata", part],
                 ["cend", CRLF]]
    last = draw(st.sampled_from(["0", "0", "00", "000"]))
    toks += [["csize", last], ["cext", draw(st.sampled_from(exts))], ["ccrlf", CRLF]]
    for _ in range(draw(st.sampled_from([0, 0, 0, 1, 2]))):
        toks += [["tline", draw(st.sampled_from(["X-Trailer: v", "Checksum:abc", "A: \xe9", "Content-Length: 5"]))],
                 ["tcrlf", CRLF]]
    toks += [["endtrailer", CRLF]]
    return toks


@st.composite
def request(draw, allow_expect=False, versions=("1.1", "1.1", "1.1", "1.0"), force_framing=None, small=False,
            targets=None, body_strategy=None, obs_fold=True):
    method = draw(st.sampled_from(METHODS))
    target = draw(targets if targets is not None else st.sampled_from(TARGETS))
    version = draw(st.sampled_from(list(versions)))
    toks = [["method", method], ["sp", " "], ["target", target]]
    if version:
        toks += [["sp", " "], ["version", "HTTP/" + version]]
    toks += [["crlf", CRLF]]
    nf = draw(st.integers(0, 3 if small else 6))
    fields = [draw(header_field(obs_fold=obs_fold)) for _ in range(nf)]
    framing = force_framing or draw(st.sampled_from(["none", "none", "cl", "cl", "chunked", "chunked"]))
    if version != "1.1" and framing == "chunked":
        framing = "cl"
    body = draw(body_strategy if body_strategy is not None else body_bytes(24 if small else 64)) if framing != "none" else ""
    fr = []
    if framing == "cl":
        num = str(len(body))
        if draw(st.integers(0, 7)) == 0:
            num = "0" * draw(st.integers(1, 3)) + num
        fr = [["fname", draw(st.sampled_from(["Content-Length", "content-length", "CONTENT-LENGTH"]))],
              ["colon", ":"], ["ows", draw(st.sampled_from([" ", "", "\t"]))], ["clnum", num],
              ["ows", draw(st.sampled_from(["", " "]))], ["crlf", CRLF]]
    elif framing == "chunked":
        fr = [["fname", draw(st.sampled_from(["Transfer-Encoding", "transfer-encoding"]))], ["colon", ":"],
              ["ows", " "], ["tevalue", draw(st.sampled_from(["chunked", "chunked", "Chunked", "CHUNKED"]))],
              ["ows", ""], ["crlf", CRLF]]
    conn = draw(st.sampled_from([None, None, None, "close", "keep-alive", "Keep-Alive", "Close"]))
    extra = []
    if conn:
        extra.append(field("Connection", conn))
    if allow_expect and version == "1.1" and draw(st.integers(0, 2)) == 0:
        extra.append(field("Expect", draw(st.sampled_from(["100-continue", "100-Continue"]))))
    lines = fields + extra
    pos = draw(st.integers(0, len(lines)))
    lines.insert(pos, fr) if fr else None
    for ln in lines:
        toks += ln
    toks += [["endhead", CRLF]]
    if framing == "cl":
        toks += [["body", body]]
    elif framing == "chunked":
        toks += draw(chunked_body(body))
    return toks


# ------------------------------------------------------------------ mutators
NUM_MUT = [
    ("sign+", lambda s: "+" + s), ("sign-", lambda s: "-" + s), ("radix0x", lambda s: "0x" + s),
    ("underscore", lambda s: s[:1] + "_" + s[1:] if len(s) > 1 else s + "_0"), ("lead-sp", lambda s: " " + s),
    ("trail-sp", lambda s: s + " "), ("lead-tab", lambda s: "\t" + s), ("trail-vt", lambda s: s + "\x0b"),
    ("lead-vt", lambda s: "\x0b" + s), ("trail-ff", lambda s: s + "\x0c"), ("trail-nul", lambda s: s + "\x00"),
    ("trail-85", lambda s: s + "\x85"), ("trail-a0", lambda s: s + "\xa0"), ("lead-a0", lambda s: "\xa0" + s),
    ("sup2", lambda s: s + "\xb2"), ("arabic-digit", lambda s: "\xd9\xa5"), ("empty", lambda s: ""),
    ("inner-sp", lambda s: s[:1] + " " + s[1:] if s else " "), ("list", lambda s: s + ", " + s),
    ("list-conflict", lambda s: s + ", " + str(int(s or "0", 16) + 1) if all(c in "0123456789abcdefABCDEF" for c in s) and 0 < len(s) <= 200 else s + ",1"),
    ("huge", lambda s: "1" + "0" * 4400), ("dot", lambda s: s + ".0"), ("exp", lambda s: s + "e0"),
    ("trail-lf", lambda s: s + "\n"), ("trail-cr", lambda s: s + "\r"), ("plus1", lambda s: str(int(s or "0", 16) + 1) if all(c in "0123456789abcdefABCDEF" for c in s) and 0 < len(s) <= 200 else "1"),
]
CRLF_MUT = [("lf", lambda s: "\n"), ("cr", lambda s: "\r"), ("crcrlf", lambda s: "\r\r\n"), ("lfcr", lambda s: "\n\r"),
            ("lflf", lambda s: "\n\n"), ("none", lambda s: ""), ("sp-crlf", lambda s: " \r\n")]
TE_MUT = [
    ("case", lambda s: "cHuNkEd"), ("pad-sp", lambda s: " chunked "), ("pad-tab", lambda s: "\tchunked"),
    ("pad-vt", lambda s: "chunked\x0b"), ("pad-vt-lead", lambda s: "\x0bchunked"), ("pad-ff", lambda s: "chunked\x0c"),
    ("pad-nul", lambda s: "chunked\x00"), ("pad-85", lambda s: "chunked\x85"), ("pad-a0", lambda s: "\xa0chunked"),
    ("twice", lambda s: "chunked, chunked"), ("gzip-chunked", lambda s: "gzip, chunked"),
    ("chunked-gzip", lambda s: "chunked, gzip"), ("identity", lambda s: "identity"),
    ("chunked-identity", lambda s: "chunked, identity"), ("identity-chunked", lambda s: "identity, chunked"),
    ("trail-comma", lambda s: "chunked,"), ("lead-comma", lambda s: ",chunked"), ("param", lambda s: "chunked;q=1"),
    ("xchunked", lambda s: "x-chunked"), ("prefix", lambda s: "chunke"), ("empty", lambda s: ""),
    ("quoted", lambda s: "\"chunked\""), ("comma-only", lambda s: ","), ("gzip", lambda s: "gzip"),
    ("chunked-lf", lambda s: "chunked\n"), ("sp-inside", lambda s: "chun ked"),
]
NAME_MUT = [
    ("underscore", lambda s: s.replace("-", "_") if "-" in s else s + "_"), ("ws-before-colon", lambda s: s + " "),
    ("tab-before-colon", lambda s: s + "\t"), ("lead-sp", lambda s: " " + s), ("inner-sp", lambda s: s[:3] + " " + s[3:]),
    ("empty", lambda s: ""), ("nul", lambda s: s + "\x00"), ("vt", lambda s: s + "\x0b"), ("obs", lambda s: s + "\xe9"),
    ("paren", lambda s: s + "("), ("lead-tab", lambda s: "\t" + s), ("case", lambda s: s.swapcase()),
    ("lf-inside", lambda s: s[:2] + "\n" + s[2:]), ("cr-inside", lambda s: s[:2] + "\r" + s[2:]),
]
COLON_MUT = [("missing", lambda s: ""), ("double", lambda s: "::"), ("sp-before", lambda s: " :"), ("semicolon", lambda s: ";")]
VALUE_MUT = [("lf-inside", lambda s: s[:1] + "\n" + s[1:]), ("cr-inside", lambda s: s[:1] + "\r" + s[1:]),
             ("nul", lambda s: s + "\x00"), ("vt", lambda s: s + "\x0b"), ("del", lambda s: s + "\x7f"),
             ("crlf-inject", lambda s: s + "\r\nContent-Length: 3"), ("crlf-inject-te", lambda s: s + "\r\nTransfer-Encoding: chunked"),
             ("lf-inject", lambda s: s + "\nContent-Length: 3")]
EXT_MUT = [("bare-semi", lambda s: ";"), ("no-name", lambda s: ";=b"), ("no-val", lambda s: ";a="), ("open-quote", lambda s: ";a=\"x"),
           ("sp-inside", lambda s: ";a b"), ("bws", lambda s: "; a=b"), ("bws-eq", lambda s: ";a = b"), ("ctl", lambda s: ";a=\x01"),
           ("lf", lambda s: ";a=b\n"), ("cr", lambda s: ";a\r"), ("bad-qpair", lambda s: ";a=\"\\\x01\""), ("nosemi", lambda s: "a=b"),
           ("sp-only", lambda s: " "), ("tab-only", lambda s: "\t"), ("qs-nul", lambda s: ";a=\"\x00\""), ("comma", lambda s: ";a,b")]
CEND_MUT = [("lf", lambda s: "\n"), ("cr", lambda s: "\r"), ("none", lambda s: ""), ("xx", lambda s: "XX"), ("x-crlf", lambda s: "X\r\n"),
            ("lfcr", lambda s: "\n\r"), ("crcrlf", lambda s: "\r\r\n"), ("sp-crlf", lambda s: " \r\n")]
TLINE_MUT = [("no-colon", lambda s: "Bad line"), ("ws-before-colon", lambda s: "A : b"), ("empty-name", lambda s: ": v"),
             ("lead-sp", lambda s: " folded"), ("nul", lambda s: "A: \x00"), ("lf", lambda s: "A: b\nC: d"), ("cr", lambda s: "A: b\rC: d"),
             ("non-token", lambda s: "A(b: c"), ("request-like", lambda s: "GET / HTTP/1.1")]
METHOD_MUT = [("lower", lambda s: s.lower()), ("empty", lambda s: ""), ("sp-lead", lambda s: " " + s), ("ctl", lambda s: s + "\x00"),
              ("paren", lambda s: s + "("), ("lf-lead", lambda s: "\n" + s), ("tab-lead", lambda s: "\t" + s)]
TARGET_MUT = [("sp-inside", lambda s: s + " x"), ("tab-inside", lambda s: s + "\tx"), ("nul", lambda s: s + "\x00"), ("empty", lambda s: ""),
              ("cr", lambda s: s + "\rx"), ("lf", lambda s: s + "\nx"), ("bad-ipv6", lambda s: "http://[::1/x"), ("authority", lambda s: "example.com:443")]
VERSION_MUT = [("lower", lambda s: s.lower()), ("two", lambda s: "HTTP/2.0"), ("nodot", lambda s: "HTTP/11"), ("long", lambda s: "HTTP/1.10"),
               ("trail-sp", lambda s: s + " "), ("trail-tab", lambda s: s + "\t"), ("trail-vt", lambda s: s + "\x0b"), ("zero9", lambda s: "HTTP/0.9"),
               ("empty", lambda s: ""), ("junk", lambda s: s + "x")]
SP_MUT = [("double", lambda s: "  "), ("tab", lambda s: "\t"), ("none", lambda s: ""), ("vt", lambda s: "\x0b")]

MUTATORS = {
    "clnum": NUM_MUT, "csize": NUM_MUT, "crlf": CRLF_MUT, "ccrlf": CRLF_MUT, "tcrlf": CRLF_MUT, "endhead": CRLF_MUT,
    "endtrailer": CRLF_MUT, "tevalue": TE_MUT, "fname": NAME_MUT, "colon": COLON_MUT, "fvalue": VALUE_MUT, "cext": EXT_MUT,
    "cend": CEND_MUT, "tline": TLINE_MUT, "method": METHOD_MUT, "target": TARGET_MUT, "version": VERSION_MUT, "sp": SP_MUT,
}

# line-level mutations: insert a framing header line before token index i (i must start a field line or be endhead)
LINE_INSERTS = [
    "Content-Length: 0", "Content-Length: 3", "Content-Length: 7", "content-length: 3", "Content-Length: 3, 3",
    "Transfer-Encoding: chunked", "transfer-encoding: Chunked", "Transfer-Encoding: gzip", "Transfer-Encoding: identity",
    "Transfer_Encoding: chunked", "Content_Length: 3", "Content-Length : 3", "Transfer-Encoding : chunked",
    "Content-Length:", "Transfer-Encoding:", "Connection: close", "Connection: keep-alive", " Content-Length: 3",
    "X: y\nContent-Length: 3", "Transfer-Encoding: chunked\x0b", "Transfer-Encoding: \x0bchunked", "Content-Length: 3\x0b",
    "Expect: 100-continue", "Host: a", "Host: b",
]


def mutation_sites(tokens):
    """all (index, mutator-name) pairs + line inserts"""
    sites = []
    for i, (k, _t) in enumerate(tokens):
        for name, _f in MUTATORS.get(k, ()):
            sites.append(["tok", i, name])
    starts = [i for i, (k, _t) in enumerate(tokens) if k in ("fname", "endhead")]
    for i in starts:
        for j in range(len(LINE_INSERTS)):
            sites.append(["ins", i, j])
    # duplicate an existing field line
    for i in starts:
        if tokens[i][0] == "fname":
            sites.append(["dup", i, 0])
    return sites


def apply_mutation(tokens, m):
    kind, i, arg = m
    toks = [list(t) for t in tokens]
    if kind == "tok":
        if i >= len(toks):
            return toks
        for name, f in MUTATORS.get(toks[i][0], ()):
            if name == arg:
                toks[i][1] = f(toks[i][1])
                break
    elif kind == "ins":
        if i <= len(toks):
            toks.insert(i, ["rawline", LINE_INSERTS[arg % len(LINE_INSERTS)] + CRLF])
    elif kind == "dup":
        j = i
        while j < len(toks) and toks[j][0] != "crlf":
            j += 1
        toks[i:i] = [list(t) for t in toks[i:j + 1]]
    return toks


@st.composite
def mutated_request(draw, nmut=(1, 1, 1, 2), **kw):
    toks = draw(request(**kw))
    for _ in range(draw(st.sampled_from(list(nmut)))):
        sites = mutation_sites(toks)
        if not sites:
            break
        # bias towards framing-relevant kinds
        framing_sites = [s for s in sites if s[0] != "tok" or toks[s[1]][0] in
                         ("clnum", "csize", "tevalue", "cext", "cend", "ccrlf", "tline", "tcrlf", "endhead", "endtrailer", "crlf")]
        pool = framing_sites if framing_sites and draw(st.integers(0, 3)) > 0 else sites
        m = draw(st.sampled_from(pool))
        toks = apply_mutation(toks, m)
    return toks


@st.composite
def stream(draw, max_msgs=4, p_mut=0.5, allow_expect=False, small=False):
    """a pipeline of 0..max_msgs messages, some mutated; returns latin-1 str"""
    n = draw(st.sampled_from([1, 1, 2, 2, 3, max_msgs, 0]))
    out = ""
    for i in range(n):
        if draw(st.floats(0, 1)) < p_mut:
            toks = draw(mutated_request(allow_expect=allow_expect, small=small))
        else:
            toks = draw(request(allow_expect=allow_expect, small=small))
        if draw(st.integers(0, 9)) == 0:
            out += draw(st.sampled_from(["\r\n", "\r\n\r\n", "\n", " "]))
        out += render(toks)
    if draw(st.integers(0, 7)) == 0:
        out += draw(st.sampled_from(["GET / HT", "\r\n", "garbage", "POST / HTTP/1.1\r\nContent-Length: 10\r\n\r\nabc"]))
    return out


# ------------------------------------------------------------------ segmentations
def interesting_offsets(s):
    """offsets adjacent to CR / LF (cuts inside CRLF pairs, around chunk lines, trailers)"""
    offs = set()
    for i, ch in enumerate(s):
        if ch in "\r\n":
            for d in (0, 1, 2):
                if 0 < i + d < len(s):
                    offs.add(i + d)
    return sorted(offs)


@st.composite
def cuts(draw, s):
    n = len(s)
    if n <= 1:
        return []
    mode = draw(st.integers(0, 5))
    if mode == 0:
        return []
    if mode == 1:
        return list(range(1, n))  # byte at a time
    if mode == 2:
        return [draw(st.integers(1, n - 1))]
    io = interesting_offsets(s) or [1]
    if mode == 3:
        k = draw(st.integers(1, min(6, len(io))))
        return sorted(set(draw(st.lists(st.sampled_from(io), min_size=k, max_size=k))))
    if mode == 4:
        return sorted(set(draw(st.lists(st.integers(1, n - 1), min_size=1, max_size=8))))
    return sorted(set(draw(st.lists(st.sampled_from(io), min_size=1, max_size=4)) +
                      draw(st.lists(st.integers(1, n - 1), min_size=0, max_size=3))))


def split_at(s, cutlist):
    out = []
    prev = 0
    for c in sorted(set(c for c in cutlist if 0 < c < len(s))):
        out.append(s[prev:c])
        prev = c
    out.append(s[prev:])
    return [x for x in out if x != ""]


# fixed base sentences for the enumerated mutation table
def base_sentences():
    def toks(*parts):
        return [list(p) for p in parts]

    s1 = toks(["method", "GET"], ["sp", " "], ["target", "/a?b=1"], ["sp", " "], ["version", "HTTP/1.1"], ["crlf", CRLF],
              *field("Host", "example.com"), *field("X-Foo", "bar baz"), ["endhead", CRLF])
    s2 = toks(["method", "POST"], ["sp", " "], ["target", "/p"], ["sp", " "], ["version", "HTTP/1.1"], ["crlf", CRLF],
              *field("Host", "h"), ["fname", "Content-Length"], ["colon", ":"], ["ows", " "], ["clnum", "5"], ["ows", ""],
              ["crlf", CRLF], *field("Content-Type", "text/plain"), ["endhead", CRLF], ["body", "hello"])
    s3 = toks(["method", "POST"], ["sp", " "], ["target", "/c"], ["sp", " "], ["version", "HTTP/1.1"], ["crlf", CRLF],
              *field("Host", "h"), ["fname", "Transfer-Encoding"], ["colon", ":"], ["ows", " "], ["tevalue", "chunked"],
              ["ows", ""], ["crlf", CRLF], ["endhead", CRLF],
              ["csize", "5"], ["cext", ""], ["ccrlf", CRLF], ["cdata", "hello"], ["cend", CRLF],
              ["csize", "3"], ["cext", ";a=b"], ["ccrlf", CRLF], ["cdata", "abc"], ["cend", CRLF],
              ["csize", "0"], ["cext", ""], ["ccrlf", CRLF], ["tline", "X-T: v"], ["tcrlf", CRLF], ["endtrailer", CRLF])
    s4 = toks(["method", "POST"], ["sp", " "], ["target", "/old"], ["sp", " "], ["version", "HTTP/1.0"], ["crlf", CRLF],
              *field("Connection", "keep-alive"), ["fname", "Content-Length"], ["colon", ":"], ["ows", " "], ["clnum", "3"],
              ["ows", ""], ["crlf", CRLF], ["endhead", CRLF], ["body", "abc"])
    s5 = toks(["method", "PUT"], ["sp", " "], ["target", "http://example.com:80/x"], ["sp", " "], ["version", "HTTP/1.1"],
              ["crlf", CRLF], *field("Host", "example.com"), *field("Accept", "a,\r\n b"),
              ["fname", "Transfer-Encoding"], ["colon", ":"], ["ows", " "], ["tevalue", "chunked"], ["ows", ""], ["crlf", CRLF],
              ["endhead", CRLF], ["csize", "A"], ["cext", ";q=\"x y\""], ["ccrlf", CRLF], ["cdata", "0123456789"], ["cend", CRLF],
              ["csize", "00"], ["cext", ""], ["ccrlf", CRLF], ["endtrailer", CRLF])
    s6 = toks(["method", "GET"], ["sp", " "], ["target", "/1"], ["sp", " "], ["version", "HTTP/1.1"], ["crlf", CRLF],
              *field("Connection", "close"), ["endhead", CRLF])
    return [s1, s2, s3, s4, s5, s6]


FOLLOWER = "GET /next HTTP/1.1\r\nHost: follower\r\n\r\n"
