"""E4 - generators for Forwarded / X-Forwarded-* header values (well-formed grammar + degenerate elements)."""
from hypothesis import strategies as st

KINDS = ["x-forwarded-for", "x-forwarded-host", "x-forwarded-proto", "x-forwarded-port", "x-forwarded-by", "forwarded"]
HDR = {"x-forwarded-for": "X-Forwarded-For", "x-forwarded-host": "X-Forwarded-Host", "x-forwarded-proto": "X-Forwarded-Proto",
       "x-forwarded-port": "X-Forwarded-Port", "x-forwarded-by": "X-Forwarded-By", "forwarded": "Forwarded"}
ENV = {k: "HTTP_" + v.upper().replace("-", "_") for k, v in HDR.items()}

# ---- well-formed address elements: (text, address, port-or-None)
V4 = ["192.0.2.1", "198.51.100.7", "203.0.113.9", "10.0.0.1", "127.0.0.1"]
V6 = ["2001:db8::1", "::1", "fe80::1", "2001:db8:0:1::a"]


@st.composite
def addr_element(draw, quoted_ok=True):
    """-> dict(text, addr, port)"""
    kind = draw(st.sampled_from(["v4", "v4", "v4p", "v6b", "v6bp", "v6bare"]))
    port = None
    if kind == "v4":
        a = draw(st.sampled_from(V4))
        text = a
    elif kind == "v4p":
        a = draw(st.sampled_from(V4))
        port = draw(st.sampled_from(["80", "8080", "65535"]))
        text = a + ":" + port
    elif kind == "v6b":
        a = draw(st.sampled_from(V6))
        text = "[" + a + "]"
    elif kind == "v6bp":
        a = draw(st.sampled_from(V6))
        port = draw(st.sampled_from(["443", "8443"]))
        text = "[" + a + "]:" + port
    else:
        a = draw(st.sampled_from(V6))
        text = a
    if quoted_ok and draw(st.integers(0, 3)) == 0:
        text = "\"" + text + "\""
    return {"text": text, "addr": a, "port": port, "kind": kind}


@st.composite
def host_element(draw):
    h = draw(st.sampled_from(["example.com", "internal.example", "h", "a.b.c"]))
    port = draw(st.sampled_from([None, None, "80", "443", "8443"]))
    text = h if port is None else h + ":" + port
    if draw(st.integers(0, 4)) == 0:
        text = "\"" + text + "\""
    return {"text": text, "host": h, "port": port}


DEGENERATE = [":80", "[", "]", "\"", "", "=", " ", "[]", "[]:80", ":", "::", "\"unterminated", "unterminated\"", "[::1", "::1]",
              "a\"b", "\"a\"b\"", "\\", "\"\\\"", "x y", "\t", "\"\"", "[:80", ".", "..", "1.2.3.4:", ":::", "\"[::1]\":80",
              "_hidden", "unknown", "\xe9", "a,b"]
FWD_PAIR_BAD = ["for", "=x", " for=1.2.3.4", "for= 1.2.3.4", "for=1.2.3.4 ", "for =1.2.3.4", "for=\"1.2.3.4", "for=1.2.3.4\"", ";", "for==",
                "proto=ftp", "proto=", "host=", "host=:", "host=:80", "for=:80", "for=\":80\"", "for=[", "for=]", "for=\"\"", "by=", "for=\"[\"",
                "host=\"a b\"", "secret=x", "FOR=1.2.3.4", "for=1.2.3.4;for=5.6.7.8", "proto=https;proto=http", "host=example.com:", "for=[]"]


@st.composite
def xff_value(draw, max_hops=5, degenerate=False):
    n = draw(st.integers(0, max_hops))
    elems = []
    for _ in range(n):
        if degenerate and draw(st.integers(0, 3)) == 0:
            elems.append({"text": draw(st.sampled_from(DEGENERATE)), "bad": True})
        else:
            elems.append(draw(addr_element()))
    sep = draw(st.sampled_from([", ", ",", " , "]))
    return {"value": sep.join(e["text"] for e in elems), "elems": elems, "sep": sep}


@st.composite
def xfh_value(draw, max_hops=4, degenerate=False):
    n = draw(st.integers(0, max_hops))
    elems = []
    for _ in range(n):
        if degenerate and draw(st.integers(0, 3)) == 0:
            elems.append({"text": draw(st.sampled_from(DEGENERATE)), "bad": True})
        else:
            elems.append(draw(host_element()))
    sep = draw(st.sampled_from([", ", ","]))
    return {"value": sep.join(e["text"] for e in elems), "elems": elems}


@st.composite
def fwd_value(draw, max_hops=5, degenerate=False):
    n = draw(st.integers(0, max_hops))
    elems = []
    for _ in range(n):
        pairs = []
        e = {"for": None, "host": None, "proto": None, "by": None, "bad": False}
        if draw(st.integers(0, 4)) > 0:
            a = draw(addr_element(quoted_ok=False))
            txt = a["text"]
            if ":" in txt or draw(st.booleans()):
                txt = "\"" + txt + "\""
            pairs.append(draw(st.sampled_from(["for", "For", "FOR"])) + "=" + txt)
            e["for"] = a
        if draw(st.integers(0, 2)) == 0:
            h = draw(host_element())
            txt = h["text"].strip("\"")
            if ":" in txt or draw(st.booleans()):
                txt = "\"" + txt + "\""
            pairs.append("host=" + txt)
            e["host"] = h
        if draw(st.integers(0, 2)) == 0:
            p = draw(st.sampled_from(["http", "https", "HTTPS"]))
            pairs.append("proto=" + p)
            e["proto"] = p.lower()
        if draw(st.integers(0, 4)) == 0:
            pairs.append("by=" + draw(st.sampled_from(["203.0.113.60", "_gateway", "\"[2001:db8::9]\""])))
        if degenerate and draw(st.integers(0, 3)) == 0:
            pairs.insert(draw(st.integers(0, len(pairs))), draw(st.sampled_from(FWD_PAIR_BAD)))
            e["bad"] = True
        e["text"] = ";".join(pairs)
        elems.append(e)
    sep = draw(st.sampled_from([", ", ","]))
    return {"value": sep.join(e["text"] for e in elems), "elems": elems}


def proto_values(degenerate):
    good = ["http", "https", "HTTPS", "Http"]
    bad = ["ftp", "http,https", "", "\"https\"", "\"https", "https ", " https", "h", "https://", "http, http", "\""]
    return st.sampled_from(good + (bad if degenerate else []))


def port_values(degenerate):
    good = ["80", "443", "8080", "8443"]
    bad = ["80,443", "", "abc", "\"8080\"", "\"80", "-1", "99999999", " 80", "80 ", "0x50", "\""]
    return st.sampled_from(good + (bad if degenerate else []))


def allowed_subsets():
    """every subset of trusted_proxy_headers the configuration accepts (forwarded alone, or any X- subset)"""
    xs = KINDS[:5]
    out = [["forwarded"]]
    for m in range(1, 1 << 5):
        out.append([xs[i] for i in range(5) if m >> i & 1])
    return out
