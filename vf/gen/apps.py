"""E4 - WSGI application behaviour DSL (data) + one generic interpreter app that logs what happened.

behaviour = {
  "status": str, "headers": [[name, value]...], "declared_cl": None|int,
  "mode": "list"|"gen"|"write"|"fw",           # how the body is produced
  "chunks": [latin-1 str...],                   # body pieces (may be empty)
  "late_start": bool,                           # gen mode: start_response on first iteration
  "fw": {"seekable": bool, "len": n, "start": s, "closeable": bool},
  "raise_at": None | ["call"] | ["start_response"] | ["iter", k] | ["write", k] | ["close"] | ["return"],
  "exc": exception class name, "recall": bool   # re-call start_response(exc_info=...) instead of raising
  "read_input": bool,
}
"""
import io

from hypothesis import strategies as st

EXC = {
    "ValueError": ValueError, "OSError": OSError, "ConnectionResetError": ConnectionResetError,
    "BrokenPipeError": BrokenPipeError, "KeyboardInterrupt": KeyboardInterrupt, "SystemExit": SystemExit,
    "GeneratorExit": GeneratorExit, "RuntimeError": RuntimeError, "KeyError": KeyError, "MemoryError": MemoryError,
}


def filepattern(n):
    return bytes((i * 7 + 3) & 0xFF for i in range(n))


class AppFault(Exception):
    pass


class TrackedFile:
    def __init__(self, data, start, seekable, closeable, log, idx, close_raises=False):
        self._f = io.BytesIO(data)
        self.close_raises = close_raises
        self._f.seek(start)
        self._seekable = seekable
        self.log = log
        self.idx = idx
        self.closed_count = 0
        if closeable:
            self.close = self._close
        if seekable:
            self.seek = self._f.seek
            self.tell = self._f.tell
            self.seekable = lambda: True

    def read(self, n=-1):
        return self._f.read(n)

    def _close(self):
        self.closed_count += 1
        self.log.append(("file_close", self.idx))
        if self.close_raises:
            raise OSError("app fault: file close")


class TrackedIter:
    """the application's iterable: counts close() calls"""

    def __init__(self, app, idx, beh, environ, start_response, mk_exc):
        self.app, self.idx, self.beh = app, idx, beh
        self.environ, self.sr, self.mk_exc = environ, start_response, mk_exc
        self.k = 0
        self.started = not beh.get("late_start")
        self.chunks = [c.encode("latin-1") for c in beh.get("chunks", [])]
        self.close_count = 0

    def __iter__(self):
        return self

    def __next__(self):
        app, beh = self.app, self.beh
        app.step(self.idx, "iter", self.k)
        if not self.started:
            self.started = True
            app.do_start(self.idx, beh, self.sr)
        ra = beh.get("raise_at")
        if ra and ra[0] == "iter" and ra[1] == self.k:
            app.raise_or_recall(self.idx, beh, self.sr)
        if beh.get("pause_after") is not None and self.k == beh["pause_after"]:
            # a producer that runs ahead of the client only so far: waits until the client has received pause_until_rx bytes (E3 only)
            app.step(self.idx, "pause", beh.get("pause_until_rx", 1))
        if beh.get("stall_after") is not None and self.k == beh["stall_after"]:
            app.step(self.idx, "stall", self.k)   # a streaming / long-poll application that now waits (for ever)
        if self.k >= len(self.chunks):
            raise StopIteration
        c = self.chunks[self.k]
        self.k += 1
        return c

    def close(self):
        self.close_count += 1
        self.app.log.append(("close", self.idx))
        self.app.closes[self.idx] = self.app.closes.get(self.idx, 0) + 1
        ra = self.beh.get("raise_at")
        if ra and ra[0] == "close":
            self.app.faults_hit.append(self.idx)
            raise self.mk_exc()


class LenIter(TrackedIter):
    def __len__(self):
        return len(self.chunks)


class DslApp:
    def __init__(self, behaviours, hook=None):
        self.behaviours = behaviours
        self.log = []
        self.calls = []
        self.closes = {}
        self.files = {}
        self.hook = hook  # called at every step (scheduler yield point in E3)
        self.returned = {}     # idx -> kind of object handed back to the server
        self.faults_hit = []

    def step(self, idx, what, k=0):
        self.log.append((what, idx, k))
        if self.hook:
            self.hook(idx, what, k)

    def mk_exc(self, beh):
        cls = EXC.get(beh.get("exc") or "ValueError", ValueError)
        if cls in (OSError,):
            return cls("app fault (OSError)")
        return cls("app fault")

    def raise_or_recall(self, idx, beh, sr):
        self.faults_hit.append(idx)
        e = self.mk_exc(beh)
        if beh.get("recall"):
            try:
                raise e
            except BaseException:
                import sys
                ei = sys.exc_info()
            self.log.append(("recall", idx))
            sr("500 App Error", [("Content-Type", "text/plain"), ("X-Recall", "1")], ei)
            return
        raise e

    def do_start(self, idx, beh, sr):
        ra = beh.get("raise_at")
        if ra and ra[0] == "start_response":
            self.faults_hit.append(idx)
            raise self.mk_exc(beh)
        hdrs = [tuple(h) for h in beh.get("headers", [])] + [("X-Call", str(idx))]
        if beh.get("declared_cl") is not None:
            hdrs.append(("Content-Length", str(beh["declared_cl"])))
        self.log.append(("start_response", idx))
        return sr(beh.get("status", "200 OK"), hdrs)

    def __call__(self, environ, start_response):
        idx = len(self.calls)
        beh = dict(self.behaviours[idx % len(self.behaviours)])
        self.calls.append({"idx": idx, "method": environ["REQUEST_METHOD"], "path": environ["PATH_INFO"],
                           "proto": environ["SERVER_PROTOCOL"]})
        self.step(idx, "call")
        if environ["REQUEST_METHOD"] == "HEAD":
            beh["chunks"] = []
            if beh.get("mode") == "fw" and not beh.get("fw_on_head"):
                # (with fw_on_head the application hands the file over for HEAD too, as static-file applications commonly do and leave
                # it to the server to drop the body: only the close() obligations are judged then, C09)
                beh["mode"] = "list"
        if beh.get("read_input"):
            environ["wsgi.input"].read()
        ra = beh.get("raise_at")
        mk = lambda: self.mk_exc(beh)
        if ra and ra[0] == "call":
            self.faults_hit.append(idx)
            raise mk()
        mode = beh.get("mode", "list")
        if mode == "fw":
            fw = beh.get("fw") or {}
            data = filepattern(fw.get("len", 10))
            f = TrackedFile(data, min(fw.get("start", 0), len(data)), fw.get("seekable", True), fw.get("closeable", True), self.log, idx,
                            close_raises=bool(fw.get("close_raises")))
            self.files[idx] = f
            self.do_start(idx, beh, start_response)
            if ra and ra[0] == "return":
                self.faults_hit.append(idx)
                raise mk()
            self.returned[idx] = "fw"
            return environ["wsgi.file_wrapper"](f, fw.get("block", 8192))
        if mode == "write":
            write = self.do_start(idx, beh, start_response)
            chunks = [c.encode("latin-1") for c in beh.get("chunks", [])]
            nw = beh.get("n_write", len(chunks))
            for k, c in enumerate(chunks[:nw]):
                self.step(idx, "write", k)
                if ra and ra[0] == "write" and ra[1] == k:
                    self.raise_or_recall(idx, beh, start_response)
                write(c)
            rest = dict(beh, chunks=[c for c in beh.get("chunks", [])[nw:]], late_start=False)
            it = LenIter(self, idx, rest, environ, start_response, mk)
            it.started = True
            if ra and ra[0] == "return":
                self.faults_hit.append(idx)
                raise mk()
            self.returned[idx] = "iter"
            return it
        if mode == "purelist":
            self.do_start(idx, beh, start_response)
            if ra and ra[0] == "return":
                self.faults_hit.append(idx)
                raise mk()
            self.returned[idx] = "purelist"
            return [c.encode("latin-1") for c in beh.get("chunks", [])]
        cls = LenIter if mode == "list" else TrackedIter
        it = cls(self, idx, beh, environ, start_response, mk)
        if mode == "list" or not beh.get("late_start"):
            it.started = True
            self.do_start(idx, beh, start_response)
        if ra and ra[0] == "return":
            self.faults_hit.append(idx)
            raise mk()
        self.returned[idx] = "iter"
        return it


class MultiConnApp:
    """one DslApp per connection (selected by the X-Conn request header): behaviours and call indices are per connection"""

    def __init__(self, behaviours, hook=None):
        self.behaviours, self.hook = behaviours, hook
        self.apps = {}

    def sub(self, key):
        if key not in self.apps:
            b = self.behaviours
            if isinstance(b, dict):   # per-connection behaviour lists: {"0": [...], "*": [...]}
                b = b.get(key, b.get("*"))
            self.apps[key] = DslApp(b, hook=self.hook)
        return self.apps[key]

    def __call__(self, environ, start_response):
        return self.sub(environ.get("HTTP_X_CONN", "0"))(environ, start_response)

    @property
    def calls(self):
        out = []
        for k in sorted(self.apps):
            out += [dict(c, conn=k) for c in self.apps[k].calls]
        return out

    @property
    def log(self):
        out = []
        for k in sorted(self.apps):
            out += [(k,) + tuple(e) for e in self.apps[k].log]
        return out

    @property
    def closes(self):
        return {(k, i): n for k in self.apps for i, n in self.apps[k].closes.items()}

    @property
    def returned(self):
        return {(k, i): v for k in self.apps for i, v in self.apps[k].returned.items()}

    @property
    def faults_hit(self):
        return [(k, i) for k in self.apps for i in self.apps[k].faults_hit]

    @property
    def files(self):
        return {(k, i): f for k in self.apps for i, f in self.apps[k].files.items()}


# ---------------------------------------------------------------- strategies
STATUSES = ["200 OK", "200 OK", "200 OK", "201 Created", "204 No Content", "304 Not Modified", "404 Not Found", "500 Oops",
            "100 Continue", "101 Switching", "299 X", "200"]
APP_HEADERS = [["Content-Type", "text/plain"], ["X-A", "b"], ["x-lower", "v"], ["Set-Cookie", "a=1"], ["Set-Cookie", "b=2"],
               ["Server", "mine"], ["Date", "Thu, 01 Jan 1970 00:00:00 GMT"], ["X-Empty", ""], ["ETag", "\"x\""], ["Via", "1.1 me"]]


@st.composite
def behaviour(draw, faults=False, exc_classes=("ValueError",)):
    mode = draw(st.sampled_from(["list", "purelist", "gen", "gen", "write", "fw"]))
    chunks = draw(st.lists(st.one_of(st.just(""), st.text(alphabet="abc\r\n0\xff", min_size=1, max_size=12),
                                     st.sampled_from(["x" * 100, "0\r\n\r\n", "HTTP/1.1 200 OK\r\n\r\n"])), max_size=4))
    total = sum(len(c) for c in chunks)
    beh = {"status": draw(st.sampled_from(STATUSES)), "mode": mode, "chunks": chunks,
           "headers": draw(st.lists(st.sampled_from(APP_HEADERS), max_size=3))}
    if mode == "fw":
        ln = draw(st.sampled_from([0, 1, 10, 100, 9000]))
        beh["fw"] = {"seekable": draw(st.booleans()), "len": ln, "start": draw(st.sampled_from([0, 0, 3, ln])),
                     "closeable": draw(st.sampled_from([True, True, False])), "block": draw(st.sampled_from([4, 8192]))}
        total = max(0, ln - min(beh["fw"]["start"], ln))
    if mode == "gen":
        beh["late_start"] = draw(st.booleans())
    if mode == "write":
        beh["n_write"] = draw(st.integers(0, len(chunks)))
    dk = draw(st.sampled_from(["absent", "absent", "exact", "exact", "larger", "smaller"]))
    if dk == "exact":
        beh["declared_cl"] = total
    elif dk == "larger":
        beh["declared_cl"] = total + draw(st.integers(1, 5))
    elif dk == "smaller" and total > 0:
        beh["declared_cl"] = draw(st.integers(0, total - 1))
    if draw(st.integers(0, 5)) == 0:
        beh["read_input"] = True
    if faults and draw(st.integers(0, 2)) > 0:
        pts = [["call"], ["start_response"], ["close"], ["return"]]
        pts += [["iter", k] for k in range(len(chunks) + 1)]
        if mode == "write":
            pts += [["write", k] for k in range(beh.get("n_write", 0))]
        beh["raise_at"] = draw(st.sampled_from(pts))
        beh["exc"] = draw(st.sampled_from(list(exc_classes)))
        if beh["raise_at"][0] in ("iter", "write") and draw(st.integers(0, 3)) == 0:
            beh["recall"] = True
    return beh
