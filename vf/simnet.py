"""E2 - the real waitress server in a deterministic in-process world.

Only the outermost OS surface is replaced (by monkey-patching module attributes from the
harness side; nothing in /repo is edited):

  * listening / connection sockets  -> FakeListen / FakeSock
  * select.select / select.poll     -> readiness computed from the fake sockets (the real
                                        trigger pipe is asked through the real select, timeout 0)
  * time.time / time.sleep          -> simulated clock
  * logging                         -> records kept unformatted

With `sched=None` the world is single-threaded (tasks are run by an inline dispatcher after
each poll turn).  With a scheduler (vf.simsched) every socket call / select is a yield point.
"""
import errno
import logging
import select as _real_select
import socket as _real_socket
import sys

_installed = False
CUR = None  # the current World


class HarnessError(Exception):
    pass


class SimWouldBlock(HarnessError):
    """A blocking wait in single-thread mode (would hang): harness limitation, not a violation."""


# ----------------------------------------------------------------------------- clock
class Clock:
    def __init__(self, t0=1700000000.0):
        self.now = t0


class TimeShim:
    """Replaces the `time` module inside waitress modules."""

    def __init__(self):
        import time as _t
        self._t = _t

    def time(self):
        return CUR.clock.now if CUR is not None else self._t.time()

    def sleep(self, s):
        if CUR is not None:
            CUR.on_sleep(s)
        else:
            self._t.sleep(s)

    def __getattr__(self, name):
        return getattr(self._t, name)


# ----------------------------------------------------------------------------- sockets
def _oserr(code):
    if code == "generic":
        return OSError("simulated socket failure")
    if code == errno.EWOULDBLOCK:
        return BlockingIOError(code, "would block")
    return OSError(code, errno.errorcode.get(code, str(code)))


class FakeBase:
    def __init__(self, world, kind):
        self.world = world
        self.kind = kind
        self.fd = world.next_fd()
        world.fds[self.fd] = self
        self.closed = False
        self.close_calls = []     # thread names
        self.calls = {}           # op -> count
        self.faults = {}          # (op, index) -> errno | "generic" | "EOF"
        self.sticky = False       # a send/recv errno fault persists: every later send/recv fails the same way (a dead socket stays dead)
        self.dead = None

    def fileno(self):
        return self.fd

    def _enter(self, op):
        """count the call, yield to the scheduler, apply a planned fault"""
        w = self.world
        i = self.calls.get(op, 0)
        self.calls[op] = i + 1
        w.calllog.append((w.thread_name(), self.kind, self.fd, op, i))
        w.yield_point("sock." + op, self)
        if self.dead is not None and op in ("send", "recv"):
            raise _oserr(self.dead)
        f = self.faults.get((op, i))
        if f is not None:
            w.faults_hit.append((self.fd, op, i, f))
            if f == "EOF":
                return "EOF"
            if self.sticky and op in ("send", "recv"):
                self.dead = f
            raise _oserr(f)
        return None

    def setblocking(self, flag):
        self._enter("setblocking")

    def getsockopt(self, level, opt, *a):
        self._enter("getsockopt")
        if opt == _real_socket.SO_SNDBUF:
            return self.world.sndbuf
        return 0

    def setsockopt(self, *a):
        self._enter("setsockopt")

    def close(self):
        w = self.world
        self.close_calls.append(w.thread_name())
        w.calllog.append((w.thread_name(), self.kind, self.fd, "close", len(self.close_calls) - 1))
        w.yield_point("sock.close", self)
        self.closed = True


class FakeSock(FakeBase):
    """Server side of one client connection."""

    def __init__(self, world, addr):
        FakeBase.__init__(self, world, "conn")
        self.addr = addr
        self.inq = []            # inbound segments (bytes) not yet received
        self.in_eof = False      # client half-closed (after inq is drained recv returns b"")
        self.in_rst = False      # client reset: recv/send raise ECONNRESET
        self.kbuf = bytearray()  # bytes accepted by send() not yet read by the client
        self.client_rx = bytearray()
        self.send_caps = None    # optional list of per-call caps (cyclic); None = by capacity only
        self.capacity = None     # max len(kbuf); None = unlimited
        self.client_reads = True  # in single-thread mode: the world drains kbuf after each turn
        self.send_log = []       # (thread, nbytes_offered, nbytes_accepted)
        self.recv_log = []
        self.sent_total = 0
        self.err_pending = None   # an asynchronous socket error (ETIMEDOUT, EHOSTUNREACH...): readable, recv raises it once

    # ---- readiness
    def r_ready(self):
        return (not self.closed) and (bool(self.inq) or self.in_eof or self.in_rst or self.err_pending is not None)

    def w_ready(self):
        if self.closed:
            return False
        if self.in_rst:
            return True
        return self.capacity is None or len(self.kbuf) < self.capacity

    # ---- socket api
    def recv(self, n):
        f = self._enter("recv")
        if self.closed:
            raise _oserr(errno.EBADF)
        if f == "EOF":
            return b""
        if self.err_pending is not None:
            e, self.err_pending = self.err_pending, None
            self.world.faults_hit.append((self.fd, "recv", -1, e))
            raise _oserr(e)
        if self.in_rst:
            raise _oserr(errno.ECONNRESET)
        if self.inq:
            seg = self.inq[0]
            if len(seg) <= n:
                self.inq.pop(0)
                out = seg
            else:
                out = seg[:n]
                self.inq[0] = seg[n:]
            self.recv_log.append((self.world.thread_name(), len(out)))
            self.world.progress += 1
            return bytes(out)
        if self.in_eof:
            self.recv_log.append((self.world.thread_name(), 0))
            return b""
        raise _oserr(errno.EWOULDBLOCK)

    def send(self, data):
        f = self._enter("send")
        if self.closed:
            raise _oserr(errno.EBADF)
        if self.in_rst:
            raise _oserr(errno.EPIPE)
        idx = self.calls["send"] - 1
        room = len(data)
        if self.capacity is not None:
            room = min(room, max(0, self.capacity - len(self.kbuf)))
        if self.send_caps:
            room = min(room, self.send_caps[idx % len(self.send_caps)])
        if room <= 0 and len(data) > 0:
            self.send_log.append((self.world.thread_name(), len(data), 0))
            raise _oserr(errno.EWOULDBLOCK)
        self.kbuf += data[:room]
        self.sent_total += room
        self.send_log.append((self.world.thread_name(), len(data), room))
        if room > 0:
            self.world.progress += 1
        # the syscall has copied the bytes; the thread may be pre-empted before it returns
        self.world.yield_point("sock.send.ret", self)
        return room

    # ---- client side
    def client_drain(self, n=None):
        k = len(self.kbuf) if n is None else min(n, len(self.kbuf))
        if k:
            self.client_rx += self.kbuf[:k]
            del self.kbuf[:k]
            self.world.progress += 1
        return k


class FakeListen(FakeBase):
    def __init__(self, world, name=("127.0.0.1", 8080), family=_real_socket.AF_INET):
        FakeBase.__init__(self, world, "listen")
        self.backlog = []
        self.name = name
        self.family = family
        self.type = _real_socket.SOCK_STREAM
        self.proto = 0
        self.accepts = 0

    def r_ready(self):
        return (not self.closed) and bool(self.backlog)

    def w_ready(self):
        return False

    def bind(self, addr):
        pass

    def listen(self, n):
        pass

    def getsockname(self):
        return self.name

    def accept(self):
        f = self._enter("accept")
        if self.closed:
            raise _oserr(errno.EBADF)
        if not self.backlog:
            raise _oserr(errno.EWOULDBLOCK)
        s = self.backlog.pop(0)
        self.accepts += 1
        self.world.progress += 1
        self.world.accepted.append(s)
        return s, s.addr


# ----------------------------------------------------------------------------- select
class FakePoll:
    def __init__(self, sel):
        self.sel = sel
        self.reg = {}

    def register(self, fd, flags):
        self.reg[fd] = flags

    def unregister(self, fd):
        self.reg.pop(fd, None)

    def poll(self, timeout=None):
        S = self.sel
        r = [fd for fd, fl in self.reg.items() if fl & S.POLLIN]
        w = [fd for fd, fl in self.reg.items() if fl & S.POLLOUT]
        rr, ww, _ = S.select(r, w, [], None if timeout is None else timeout / 1000.0)
        out = {}
        for fd in rr:
            out[fd] = out.get(fd, 0) | S.POLLIN
        for fd in ww:
            out[fd] = out.get(fd, 0) | S.POLLOUT
        w0 = CUR
        if w0 is not None:
            for fd in list(self.reg):
                o = w0.fds.get(fd)
                if o is not None and o.closed:
                    out[fd] = out.get(fd, 0) | S.POLLNVAL
                elif o is not None and getattr(o, "in_rst", False):
                    out[fd] = out.get(fd, 0) | S.POLLERR | S.POLLHUP   # what poll(2) reports for a reset connection
        return sorted(out.items())


class FakeSelect:
    """Replaces the `select` module inside waitress.wasyncore."""

    def __init__(self):
        for k in ("POLLIN", "POLLPRI", "POLLOUT", "POLLERR", "POLLHUP", "POLLNVAL"):
            setattr(self, k, getattr(_real_select, k))
        self.error = _real_select.error

    def _ready(self, r, w):
        wd = CUR
        rr, ww = [], []
        real = [fd for fd in r if fd not in wd.fds]
        if real:
            try:
                got, _, _ = _real_select.select(real, [], [], 0)
            except (OSError, ValueError):
                got = []
            got = set(got)
        else:
            got = ()
        for fd in r:
            o = wd.fds.get(fd)
            if o is None:
                if fd in got:
                    rr.append(fd)
            elif o.r_ready():
                rr.append(fd)
        for fd in w:
            o = wd.fds.get(fd)
            if o is not None and o.w_ready():
                ww.append(fd)
        return rr, ww

    def select(self, r, w, e, timeout=None):
        wd = CUR
        wd.select_calls += 1
        wd.last_select = (list(r), list(w), timeout)
        wd.yield_point("select", None)
        for fd in list(r) + list(w):
            o = wd.fds.get(fd)
            if o is not None and o.closed:
                raise OSError(errno.EBADF, "bad fd in select")
        rr, ww = self._ready(r, w)
        if not rr and not ww:
            got = wd.on_select_block(self, list(r), list(w), timeout)
            if got is not None:
                rr, ww = got
        return rr, ww, []

    def poll(self):
        return FakePoll(self)


# ----------------------------------------------------------------------------- logging
class LogTap(logging.Filter):
    def filter(self, record):
        w = CUR
        if w is not None:
            et = record.exc_info[0].__name__ if record.exc_info and record.exc_info[0] else None
            msg = record.msg if isinstance(record.msg, str) else repr(record.msg)
            w.logs.append((record.levelno, msg[:200], et))
            if record.exc_info and record.exc_info[1] is not None and w.keep_tracebacks:
                import traceback
                w.tracebacks.append("".join(traceback.format_exception(*record.exc_info))[-1500:])
        return False


class InlineDispatcher:
    """Single-thread stand-in for the worker pool: run tasks after the poll turn."""

    def __init__(self):
        self.queue = []
        self.cancelled = 0

    def add_task(self, task):
        self.queue.append(task)

    def set_thread_count(self, n):
        pass

    def shutdown(self, cancel_pending=True, timeout=5):
        if cancel_pending:
            while self.queue:
                self.queue.pop(0).cancel()
                self.cancelled += 1
        return True


class _CondShim:
    """Condition used by waitress.channel in single-thread mode: waiting would hang."""

    def __init__(self, lock=None):
        import threading as _th
        self._lock = lock or _th.RLock()

    def acquire(self, *a, **k):
        return self._lock.acquire(*a, **k)

    def release(self):
        self._lock.release()

    def __enter__(self):
        self._lock.acquire()
        return self

    def __exit__(self, *a):
        self._lock.release()

    def wait(self, timeout=None):
        w = CUR
        if w is not None:
            w.would_block = True
        raise SimWouldBlock("Condition.wait() in single-thread world")

    def notify(self, n=1):
        pass

    def notify_all(self):
        pass


class _ThreadingShimST:
    def __init__(self):
        import threading as _th
        self._th = _th
        self.Condition = _CondShim

    def __getattr__(self, name):
        return getattr(self._th, name)


def install():
    """Patch waitress module attributes once per process."""
    global _installed
    if _installed:
        return
    import waitress.channel as wc
    import waitress.server as ws
    import waitress.task as wt
    import waitress.wasyncore as wa
    ts = TimeShim()
    wc.time = ts
    ws.time = ts
    wt.time = ts
    wa.time = ts
    wa.select = FakeSelect()
    lg = logging.getLogger("waitress")
    lg.addFilter(LogTap())
    lg.setLevel(logging.DEBUG)
    lg.propagate = False
    ql = logging.getLogger("waitress.queue")
    ql.addFilter(LogTap())
    ql.setLevel(logging.DEBUG)
    ql.propagate = False
    import warnings
    warnings.simplefilter("ignore")
    # the abort exception of the scheduler must not be swallowed by wasyncore's bare excepts
    from . import simsched
    wa._reraised_exceptions = tuple(wa._reraised_exceptions) + (simsched.SimAbort,)
    import waitress.trigger as wtr
    orig_pull = wtr.trigger._physical_pull

    def _physical_pull(self_):
        w = CUR
        if w is not None:
            w.yield_point("trigger.pull", None)
            w.trigger_pulls += 1
        orig_pull(self_)
        if w is not None:
            w.yield_point("trigger.pulled", None)

    wtr.trigger._physical_pull = _physical_pull
    _installed = True


class BareWorld:
    """clock + progress counter only (scheduler scenarios without a server, e.g. the worker pool alone)"""

    def __init__(self, sched):
        global CUR
        install()
        import waitress.task as wt
        self.sched = sched
        sched.world = self
        self.clock = Clock()
        self.progress = 0
        self.logs = []
        self.tracebacks = []
        self.keep_tracebacks = False
        wt.threading = sched.threading_shim()
        CUR = self

    def on_sleep(self, s):
        self.sched.sleep(s)

    def yield_point(self, kind, obj):
        self.sched.yield_point(kind, obj)

    def close(self):
        global CUR
        CUR = None


class World:
    def __init__(self, app, adj=None, sched=None, nlisten=1, unix=False, sndbuf=1 << 20,
                 keep_tracebacks=False, dispatcher=None, map_obj=None):
        global CUR
        install()
        import waitress.channel as wc
        import waitress.server as ws
        import waitress.task as wt
        import waitress.trigger as wtr
        CUR = self
        self.sched = sched
        if sched is not None:
            sched.world = self
        self.clock = Clock()
        self.fds = {}
        self._next_fd = 1000
        self.calllog = []
        self.faults_hit = []
        self.accepted = []
        self.logs = []
        self.tracebacks = []
        self.keep_tracebacks = keep_tracebacks
        self.progress = 0
        self.select_calls = 0
        self.last_select = None
        self.would_block = False
        self.spin = False
        self.trigger_pulls = 0
        self.sndbuf = sndbuf
        self.handle_errors = []
        self.map = map_obj if map_obj is not None else {}
        adj = dict(adj or {})
        if sched is None:
            wc.threading = _ThreadingShimST()
            import threading as _th
            wt.threading = _th
            wtr.threading = _th
            self.dispatcher = dispatcher or InlineDispatcher()
        else:
            shim = sched.threading_shim()
            wc.threading = shim
            wt.threading = shim
            wtr.threading = shim
            self.dispatcher = dispatcher  # None -> real ThreadedTaskDispatcher created by create_server
        self.listeners = []
        kw = dict(adj)
        if unix:
            kw.setdefault("unix_socket", "/nonexistent/verif.sock")
            ls = FakeListen(self, name="/nonexistent/verif.sock", family=_real_socket.AF_UNIX)
            self.listeners.append(ls)
            self.server = ws.create_server(app, map=self.map, _sock=ls, _dispatcher=self.dispatcher, **kw)
            self.servers = [self.server]
        else:
            if nlisten == 1:
                ls = FakeListen(self)
                self.listeners.append(ls)
                kw.setdefault("listen", "127.0.0.1:8080")
                self.server = ws.create_server(app, map=self.map, _sock=ls, _dispatcher=self.dispatcher, **kw)
                self.servers = [self.server]
            else:
                # several listening sockets: build the servers the way create_server does
                from waitress.adjustments import Adjustments
                kw.setdefault("listen", " ".join("127.0.0.1:%d" % (8080 + i) for i in range(nlisten)))
                a = Adjustments(**kw)
                disp = self.dispatcher
                if disp is None:
                    disp = wt.ThreadedTaskDispatcher()
                    disp.set_thread_count(a.threads)
                self.servers = []
                for i, sockinfo in enumerate(a.listen[:nlisten]):
                    ls = FakeListen(self, name=("127.0.0.1", 8080 + i))
                    self.listeners.append(ls)
                    self.servers.append(ws.TcpWSGIServer(app, self.map, True, ls, dispatcher=disp, adj=a,
                                                         sockinfo=sockinfo))
                self.server = self.servers[0]
        self.adj = self.server.adj
        self.task_dispatcher = self.server.task_dispatcher
        # record (instead of hiding) exceptions that reach the last-resort handler
        world = self
        import waitress.wasyncore as wa
        if not getattr(wa.dispatcher, "_verif_wrapped", False):
            orig = wa.dispatcher.handle_error

            def handle_error(self_):
                et, ev, tb = sys.exc_info()
                w = CUR
                if w is not None:
                    import traceback
                    w.handle_errors.append((type(self_).__name__, et.__name__ if et else None, str(ev)[:200],
                                            traceback.format_tb(tb)[-1][:300] if tb else ""))
                return orig(self_)

            wa.dispatcher.handle_error = handle_error
            wa.dispatcher._verif_wrapped = True

    # ---- plumbing
    def next_fd(self):
        self._next_fd += 1
        return self._next_fd

    def thread_name(self):
        if self.sched is not None:
            return self.sched.current_name()
        return "main"

    def yield_point(self, kind, obj):
        if self.sched is not None:
            self.sched.yield_point(kind, obj)

    def on_sleep(self, s):
        if self.sched is not None:
            self.sched.sleep(s)
        else:
            self.clock.now += s

    def on_select_block(self, sel, r, w, timeout):
        if self.sched is not None:
            return self.sched.select_block(sel, r, w, timeout)
        return None  # single-thread: behave like an expired timeout (the driver decides what next)

    # ---- client api
    def connect(self, addr=("127.0.0.1", 40000), listener=0):
        s = FakeSock(self, addr)
        self.listeners[listener].backlog.append(s)
        return s

    # ---- single-thread driver
    def turn(self, timeout=0.0):
        """one poll turn + run queued tasks inline + client drains"""
        import waitress.wasyncore as wa
        if self.adj.asyncore_use_poll:
            wa.poll2(timeout, self.map)
        else:
            wa.poll(timeout, self.map)
        ran = 0
        d = self.dispatcher
        while getattr(d, "queue", None):
            t = d.queue.pop(0)
            t.service()
            ran += 1
        for s in self.accepted:
            if s.client_reads and s.kbuf:
                s.client_drain()
        return ran

    def run(self, max_turns=400):
        """run to quiescence (no progress in a turn and nothing ready).  A *spin* - the loop keeps
        finding the socket ready but 60 consecutive turns move no byte and run no task - is reported
        through self.spin (it is how undeliverable output looks in a busy loop), not as an error."""
        turns = 0
        idle = 0
        stuck = 0
        while turns < max_turns:
            before = (self.progress, len(self.calllog))
            ran = self.turn()
            turns += 1
            if (self.progress, len(self.calllog)) == before and not ran:
                idle += 1
                if idle >= 2:
                    return turns
            else:
                idle = 0
            if self.progress == before[0] and not ran:
                stuck += 1
                if stuck >= 60:
                    self.spin = True
                    return turns
            else:
                stuck = 0
        raise HarnessError("single-thread world did not reach quiescence in %d turns" % max_turns)

    # ---- scheduled mode
    def io_main(self):
        import waitress.wasyncore as wa
        if len(self.servers) == 1:
            self.server.run()
        else:
            wa.loop(timeout=self.adj.asyncore_loop_timeout, map=self.map, use_poll=self.adj.asyncore_use_poll)

    def start_io(self):
        return self.sched.spawn(self.io_main, name="io")

    def close(self):
        global CUR
        try:
            for srv in self.servers:
                try:
                    srv.trigger.close()
                except Exception:
                    pass
            self.map.clear()
        finally:
            CUR = None
