"""E1 - hand-written recognisers for the five framing-critical grammars of C10
(RFC 9110 / 9112); no regular expressions, no import from waitress."""
from .request import DIGITS, HEXDIGS, TCHAR, WS, _ext_strict, is_field_vchar, is_token


def is_content_length(b):
    """1*DIGIT"""
    return len(b) > 0 and all(c in DIGITS for c in b)


def is_chunk_size(b):
    """1*HEXDIG"""
    return len(b) > 0 and all(c in HEXDIGS for c in b)


def is_chunk_ext(b):
    """*( ';' token [ '=' ( token / quoted-string ) ] )"""
    return _ext_strict(b)


def split_control_line(b):
    """chunk-size [ chunk-ext ] -> (size, ext) split at the first ';'"""
    i = b.find(b";")
    return (b, b"") if i < 0 else (b[:i], b[i:])


def is_control_line(b):
    sz, ext = split_control_line(b)
    return is_chunk_size(sz) and is_chunk_ext(ext)


def is_field_value(v):
    """field-value with OWS already trimmed: empty, or field-vchar ... field-vchar with SP / HTAB inside"""
    if not v:
        return True
    if not (is_field_vchar(v[0]) and is_field_vchar(v[-1])):
        return False
    return all(is_field_vchar(c) or c in WS for c in v)


def is_header_line(b):
    """token ':' OWS field-value OWS"""
    i = b.find(b":")
    if i <= 0:
        return False
    if not is_token(b[:i]):
        return False
    return is_field_value(b[i + 1:].strip(WS))


def header_line_value(b):
    i = b.find(b":")
    return b[i + 1:].strip(WS)


def is_target(t):
    """read as leniently as the statement's exclusions allow: 1*( VCHAR / obs-text )"""
    return len(t) > 0 and all(is_field_vchar(c) for c in t)


def is_request_line(b):
    """token SP target [ SP 'HTTP/' DIGIT '.' DIGIT ]"""
    parts = b.split(b" ")
    if len(parts) == 2:
        return is_token(parts[0]) and is_target(parts[1])
    if len(parts) == 3:
        v = parts[2]
        return (is_token(parts[0]) and is_target(parts[1]) and len(v) == 8 and v[:5] == b"HTTP/"
                and v[5] in DIGITS and v[6:7] == b"." and v[7] in DIGITS)
    return False


def request_line_parts(b):
    parts = b.split(b" ")
    return parts[0], parts[1], (parts[2][5:] if len(parts) == 3 else b"")
