"""E1 - client-side response-stream parser (RFC 9112 section 6.3 algorithm).

parse_responses(wire, methods, eof) -> (responses, leftover_offset, problem)

`methods` is the list of request methods in order (HEAD changes framing).  Interim 1xx
responses are returned with interim=True and do not consume a method.  `problem` is None
when the wire is a sequence of complete responses (the last one may be close-delimited
if eof is True), otherwise a short description and the offset where parsing stopped.
"""

TCHAR = frozenset(b"!#$%&'*+-.^_`|~0123456789ABCDEFGHIJKLMNOPQRSTUVWXYZabcdefghijklmnopqrstuvwxyz")
HEX = frozenset(b"0123456789abcdefABCDEF")


class Response:
    def __init__(self):
        self.start = 0
        self.end = None
        self.version = None
        self.status = None
        self.reason = None
        self.status_line = None
        self.head_lines = []        # raw field lines (bytes), in order
        self.fields = []            # [(name, value)]
        self.body = b""
        self.framing = None         # none | cl | chunked | close
        self.interim = False
        self.complete = False
        self.head_raw = b""
        self.method = None

    def get(self, name):
        name = name.lower()
        return [v for k, v in self.fields if k.lower() == name]

    def __repr__(self):
        return "<Resp %s %s fr=%s body=%d complete=%s>" % (self.status, self.reason, self.framing,
                                                          len(self.body), self.complete)


def parse_responses(wire, methods, eof=True, final_marker=None):
    out = []
    p = 0
    n = len(wire)
    mi = 0
    while p < n:
        r = Response()
        r.start = p
        he = wire.find(b"\r\n\r\n", p)
        if he < 0:
            return out, p, "incomplete or unterminated response head at %d" % p
        head = wire[p:he]
        r.head_raw = wire[p:he + 4]
        lines = head.split(b"\r\n")
        sl = lines[0]
        r.status_line = sl
        if not (len(sl) >= 12 and sl[:5] == b"HTTP/" and sl[5:6].isdigit() and sl[6:7] == b"." and sl[7:8].isdigit()
                and sl[8:9] == b" " and sl[9:12].isdigit() and (len(sl) == 12 or sl[12:13] == b" ")):
            return out, p, "malformed status line %r at %d" % (sl[:60], p)
        r.version = sl[5:8]
        r.status = int(sl[9:12])
        r.reason = sl[13:]
        if b"\r" in head.replace(b"\r\n", b"") or b"\n" in head.replace(b"\r\n", b""):
            return out, p, "bare CR/LF inside response head at %d" % p
        for ln in lines[1:]:
            c = ln.find(b":")
            if c <= 0 or not all(ch in TCHAR for ch in ln[:c]):
                return out, p, "malformed response field line %r" % ln[:80]
            r.head_lines.append(ln)
            r.fields.append((ln[:c], ln[c + 1:].strip(b" \t")))
        p = he + 4
        if 100 <= r.status < 200 and not (final_marker and r.get(final_marker)):
            r.interim = True
            r.framing = "none"
            r.complete = True
            r.end = p
            out.append(r)
            continue
        method = methods[mi] if mi < len(methods) else None
        r.method = method
        mi += 1
        te = [v.lower() for v in r.get(b"transfer-encoding")]
        cl = r.get(b"content-length")
        if method == b"HEAD" or method == "HEAD" or r.status in (204, 304) or 100 <= r.status < 200:
            r.framing = "none"
            r.complete = True
            r.end = p
        elif te:
            codings = [c.strip() for c in b",".join(te).split(b",")]
            if codings[-1] != b"chunked":
                r.framing = "close"
                r.body = wire[p:]
                r.complete = eof
                r.end = n
                out.append(r)
                return out, n, None if eof else "close-delimited response without EOF"
            r.framing = "chunked"
            body = bytearray()
            while True:
                le = wire.find(b"\r\n", p)
                if le < 0:
                    out.append(r)
                    r.body = bytes(body)
                    return out, p, "truncated chunk-size line at %d" % p
                szl = wire[p:le]
                semi = szl.find(b";")
                sz = szl if semi < 0 else szl[:semi]
                if not sz or any(c not in HEX for c in sz):
                    out.append(r)
                    r.body = bytes(body)
                    return out, p, "malformed chunk size %r at %d" % (szl[:40], p)
                size = int(sz, 16)
                p = le + 2
                if size == 0:
                    break
                if p + size + 2 > n:
                    body += wire[p:p + size]
                    out.append(r)
                    r.body = bytes(body)
                    return out, p, "truncated chunk at %d" % p
                body += wire[p:p + size]
                if wire[p + size:p + size + 2] != b"\r\n":
                    out.append(r)
                    r.body = bytes(body)
                    return out, p, "chunk not terminated by CRLF at %d" % (p + size)
                p += size + 2
            # trailer
            while True:
                le = wire.find(b"\r\n", p)
                if le < 0:
                    out.append(r)
                    r.body = bytes(body)
                    return out, p, "truncated chunked trailer at %d" % p
                ln = wire[p:le]
                p = le + 2
                if ln == b"":
                    break
            r.body = bytes(body)
            r.complete = True
            r.end = p
        elif cl:
            vals = set(cl)
            if len(vals) != 1 or not cl[0].isdigit():
                out.append(r)
                return out, p, "invalid Content-Length %r" % cl
            k = int(cl[0])
            r.framing = "cl"
            r.body = wire[p:p + k]
            if p + k > n:
                r.complete = False
                r.end = n
                out.append(r)
                return out, n, "body shorter (%d) than Content-Length %d" % (n - p, k)
            r.complete = True
            p += k
            r.end = p
        else:
            r.framing = "close"
            r.body = wire[p:]
            r.complete = eof
            r.end = n
            out.append(r)
            return out, n, None if eof else "close-delimited response without EOF"
        out.append(r)
    return out, p, None
