"""E1 - independent reference request-stream parser (RFC 9112 sections 2-7, RFC 9110 section 5).

No import from waitress, no regular expressions: hand-written scanners.

parse_stream(data) -> list[Item].  Each message gets one verdict:

  VALID        strictly conformant and inside waitress's documented supported subset
  MUST_REFUSE  framing ambiguous / malformed in one of the classes the C01 statement enumerates
  GRAY         not strictly valid, but not in an enumerated class: accept or refuse, but if
               delivered then under the framing computed here (unless *_unchecked is set)
  INCOMPLETE   the stream ends inside the message
"""

VALID, MUST_REFUSE, GRAY, INCOMPLETE = "VALID", "MUST_REFUSE", "GRAY", "INCOMPLETE"

TCHAR = frozenset(b"!#$%&'*+-.^_`|~0123456789ABCDEFGHIJKLMNOPQRSTUVWXYZabcdefghijklmnopqrstuvwxyz")
DIGITS = frozenset(b"0123456789")
HEXDIGS = frozenset(b"0123456789abcdefABCDEF")
WS = b" \t"


def is_token(b):
    return len(b) > 0 and all(c in TCHAR for c in b)


def is_field_vchar(c):
    return 0x21 <= c <= 0x7E or c >= 0x80


def trim_ows(b):
    return b.strip(WS)


class Item:
    def __init__(self, start):
        self.start = start          # offset of the first byte examined for this message
        self.msg_start = start      # offset of the start-line (after leading CRLFs)
        self.end = None             # offset just after the message (None when unknown)
        self.head_end = None
        self.verdict = None
        self.cls = None             # refusal / gray class
        self.notes = []
        self.method = self.target = self.version = None
        self.lex_method = None   # first token of the start line even when the line is not judged: only used to frame the *response* (HEAD)
        self.fields = []            # [(name bytes, value bytes)] arrival order, obs-fold unfolded
        self.framing = "none"       # none | cl | chunked
        self.body = b""
        self.trailers = []
        self.close_after = False    # request asks / RFC demands closing after this message
        self.must_close = False     # statement class: CL+TE, or TE on a non-1.1 request
        self.body_unchecked = False
        self.fields_unchecked = False
        self.has_obs_fold = False
        self.expect_continue = False
        self.leading_blank = 0
        self.chunk_wire_len = 0     # bytes of chunked framing incl. sizes/trailer
        self.incomplete_in = None   # head | body
        self.start_line_gray = False

    def refuse(self, cls):
        if self.verdict != MUST_REFUSE:
            self.verdict = MUST_REFUSE
            self.cls = cls
        return self

    def gray(self, cls):
        if self.verdict is None or self.verdict == VALID:
            self.verdict = GRAY
            self.cls = cls
        self.notes.append(cls)
        return self

    def __repr__(self):
        return "<Item %s %s %r %r fr=%s body=%d end=%r close=%s>" % (
            self.verdict, self.cls, self.method, self.target, self.framing, len(self.body), self.end,
            self.close_after)


MAX_ITEMS = 64


def parse_stream(data, max_items=MAX_ITEMS):
    items = []
    pos = 0
    n = len(data)
    while pos < n and len(items) < max_items:
        it = parse_one(data, pos)
        items.append(it)
        if it.end is None or it.verdict in (MUST_REFUSE, INCOMPLETE):
            break
        pos = it.end
    return items


def parse_one(data, pos):
    it = Item(pos)
    n = len(data)
    # leading empty lines (CRLF only) are tolerated (RFC 9112 2.2)
    p = pos
    while data[p:p + 2] == b"\r\n":
        p += 2
    it.leading_blank = p - pos
    it.msg_start = p
    if p >= n:
        it.verdict = INCOMPLETE
        it.incomplete_in = "head"
        it.cls = "only-blank-lines"
        return it
    he = data.find(b"\r\n\r\n", p)
    if he < 0:
        it.verdict = INCOMPLETE
        it.incomplete_in = "head"
        return it
    head = data[p:he]  # without the terminating CRLFCRLF
    it.head_end = he + 4
    lines = head.split(b"\r\n")
    # ---- bare CR / LF: in a field line it is one of the enumerated refusal classes.  In or in front of the start-line a bare LF
    #      is left open (RFC 9112 2.2 lets a recipient take a lone LF for a line terminator; the exact gate is C10's), but a bare CR
    #      is not: "a recipient of such a bare CR MUST consider that element to be invalid or replace each bare CR with SP", and
    #      either way no request-line results - no RFC 9112 parser extracts a message from it
    start_line = lines[0]
    if any(b"\r" in ln or b"\n" in ln for ln in lines[1:]):
        it.refuse("bare-cr-lf")
    if b"\r" in start_line:
        it.refuse("bare-cr-in-start-line")
    _start_line(it, start_line)
    # ---- field lines, obs-fold
    raw_fields = []
    for ln in lines[1:]:
        if ln == b"":
            # cannot happen: the first CRLFCRLF ended the head
            continue
        if ln[0:1] in (b" ", b"\t"):
            if not raw_fields:
                # whitespace-preceded line between start-line and first field
                it.gray("ws-before-first-field")
                it.fields_unchecked = True
                continue
            it.has_obs_fold = True
            raw_fields[-1] = raw_fields[-1] + ln
        else:
            raw_fields.append(ln)
    for ln in raw_fields:
        colon = ln.find(b":")
        if colon < 0:
            it.refuse("no-colon")
            continue
        name, value = ln[:colon], ln[colon + 1:]
        if name == b"":
            it.refuse("empty-name")
            continue
        if name[-1:] in (b" ", b"\t") and is_token(name.rstrip(WS)):
            it.refuse("ws-before-colon")
            continue
        if not is_token(name):
            it.refuse("non-token-name")
            continue
        v = trim_ows(value)
        if not all(is_field_vchar(c) or c in WS for c in v):
            if it.verdict != MUST_REFUSE:
                it.gray("ctl-in-field-value")
        it.fields.append((name, v))
    if it.verdict == MUST_REFUSE:
        it.end = None
        return it
    if it.start_line_gray:
        # the version, hence the framing rules that apply, cannot be known: judge nothing further
        it.framing = "unknown"
        it.end = None
        return it
    for single in (b"host", b"content-type"):
        if sum(1 for (k, _v) in it.fields if k.lower() == single) > 1:
            it.gray("duplicate-" + single.decode())   # RFC 9112 3.2: 400 allowed/required for Host
    # ---- framing
    ver11 = it.version == b"1.1"
    te_lines = [v for (k, v) in it.fields if k.lower() == b"transfer-encoding"]
    cl_lines = [v for (k, v) in it.fields if k.lower() == b"content-length"]
    conn = [v for (k, v) in it.fields if k.lower() == b"connection"]
    expect = [v for (k, v) in it.fields if k.lower() == b"expect"]
    chunked = False
    if te_lines:
        joined = b",".join(te_lines)
        elems = [trim_ows(e) for e in joined.split(b",")]
        nonempty = [e for e in elems if e != b""]
        if len(nonempty) != len(elems):
            it.gray("te-empty-element")
        if ver11:
            if not nonempty:
                it.gray("te-empty")
            else:
                low = [e.lower() for e in nonempty]
                if low == [b"chunked"]:
                    chunked = True
                    if len(te_lines) > 1:
                        it.gray("te-repeated-line")
                else:
                    return it.refuse("te-not-single-final-chunked")
        else:
            # Transfer-Encoding on a request that is not HTTP/1.1: may be processed, then close
            it.gray("te-on-non-1.1")
            it.must_close = not it.start_line_gray
            it.close_after = True
            it.body_unchecked = True
    cl = None
    if cl_lines:
        bad = None
        if len(cl_lines) > 1:
            bad = "cl-repeated"
        else:
            v = cl_lines[0]
            if b"," in v:
                bad = "cl-list"
            elif not (len(v) > 0 and all(c in DIGITS for c in v)):
                bad = "cl-non-decimal"
        if bad:
            if chunked or (te_lines and not ver11):
                # RFC lets TE win; waitress may also refuse: either is fine, but close afterwards
                it.gray(bad + "+te")
                it.must_close = True
                it.close_after = True
                it.fields_unchecked = True
            else:
                return it.refuse(bad)
        else:
            _d = cl_lines[0].lstrip(b"0")
            cl = int(_d or b"0") if len(_d) < 4000 else 10 ** 4000  # no str->int digit limit in the reference
            if chunked:
                it.must_close = True
                it.close_after = True
    # persistence asked by the request itself
    cv = b",".join(conn).lower()
    ctoks = [trim_ows(t) for t in cv.split(b",")] if conn else []
    if ver11:
        if b"close" in ctoks:
            it.close_after = True
    else:
        if ctoks != [b"keep-alive"]:
            it.close_after = True
    if len(ctoks) > 1 or len(conn) > 1:
        it.notes.append("connection-list")
    if ver11 and expect and trim_ows(expect[0]).lower() == b"100-continue":
        it.expect_continue = True
    if it.verdict is None:
        it.verdict = VALID
    # ---- body
    n = len(data)
    b0 = it.head_end
    if chunked:
        it.framing = "chunked"
        return _chunked(it, data, b0)
    if cl is not None and cl > 0 and not (te_lines and not ver11 and False):
        it.framing = "cl"
        if b0 + cl > n:
            it.body = data[b0:]
            it.verdict = INCOMPLETE if it.verdict != MUST_REFUSE else it.verdict
            it.incomplete_in = "body"
            it.end = None
            return it
        it.body = data[b0:b0 + cl]
        it.end = b0 + cl
        return it
    it.end = b0
    return it


def _start_line(it, sl):
    parts = sl.split(b" ")
    if len(parts) == 3 and parts[2].startswith(b"HTTP/") and len(parts[2]) == 8 \
            and parts[2][5] in DIGITS and parts[2][6:7] == b"." and parts[2][7] in DIGITS \
            and is_token(parts[0]) and len(parts[1]) > 0 \
            and not any(c in b"\r\n\t\x0b\x0c" for c in sl):
        m, t, v = parts[0], parts[1], parts[2][5:]
        it.method, it.target, it.version = m, t, v
        it.lex_method = m
        if m != m.upper():
            it.gray("method-lowercase")
        if not all(0x21 <= c <= 0x7E for c in t):
            # control bytes / non-ASCII in the target: URI syntax, not framing
            it.gray("target-chars")
        if v not in (b"1.0", b"1.1"):
            it.gray("version-unsupported")
        # authority-form / odd targets are left to the implementation
        if not (t[:1] == b"/" or t == b"*" or b"://" in t):
            it.gray("target-form")
        elif b"://" in t and t[:1] != b"/":
            # absolute-form: URI parsing oddities (ports, brackets) are not a framing matter
            scheme = t.split(b"://", 1)[0]
            if not (scheme.isalpha()):
                it.gray("target-form")
            if b"[" in t or b"]" in t or b"@" in t:
                it.gray("target-authority-oddity")
        return
    # anything else: not an enumerated class; nothing about it is compared, and since the
    # version (hence the framing rules) cannot be known, neither body nor must-close are judged
    it.gray("start-line-form")
    it.fields_unchecked = True
    it.body_unchecked = True
    it.start_line_gray = True
    it.method = it.target = None
    st = sl.strip()
    it.lex_method = st.split(b" ")[0].split(b"\t")[0] if st else None
    it.version = st[-3:] if st[-8:-3] == b"HTTP/" else b""


def _field_line_ok(ln):
    colon = ln.find(b":")
    if colon <= 0:
        return False
    if not is_token(ln[:colon]):
        return False
    v = trim_ows(ln[colon + 1:])
    return all(is_field_vchar(c) or c in WS for c in v)


def chunk_ext_status(ext):
    """'ok' if ext matches *( ';' token [ '=' ( token / quoted-string ) ] ),
    'bws' if it only does so when bad whitespace (RFC 9112 BWS) is removed, else 'bad'."""
    if _ext_strict(ext):
        return "ok"
    # remove BWS around ';' and '=' outside quoted strings
    out = bytearray()
    i = 0
    inq = False
    while i < len(ext):
        c = ext[i]
        if inq:
            out.append(c)
            if c == 0x5C and i + 1 < len(ext):
                out.append(ext[i + 1])
                i += 1
            elif c == 0x22:
                inq = False
        else:
            if c == 0x22:
                inq = True
                out.append(c)
            elif c in WS:
                pass
            else:
                out.append(c)
        i += 1
    if _ext_strict(bytes(out)):
        return "bws"
    return "bad"


def _ext_strict(ext):
    i = 0
    n = len(ext)
    while i < n:
        if ext[i] != 0x3B:  # ';'
            return False
        i += 1
        j = i
        while j < n and ext[j] in TCHAR:
            j += 1
        if j == i:
            return False
        i = j
        if i < n and ext[i] == 0x3D:  # '='
            i += 1
            if i < n and ext[i] == 0x22:
                i += 1
                closed = False
                while i < n:
                    c = ext[i]
                    if c == 0x22:
                        closed = True
                        i += 1
                        break
                    if c == 0x5C:
                        if i + 1 >= n:
                            return False
                        d = ext[i + 1]
                        if not (d in WS or 0x21 <= d <= 0x7E or d >= 0x80):
                            return False
                        i += 2
                        continue
                    if not (c in WS or c == 0x21 or 0x23 <= c <= 0x5B or 0x5D <= c <= 0x7E or c >= 0x80):
                        return False
                    i += 1
                if not closed:
                    return False
            else:
                j = i
                while j < n and ext[j] in TCHAR:
                    j += 1
                if j == i:
                    return False
                i = j
    return True


def _chunked(it, data, p):
    n = len(data)
    body = bytearray()
    start = p

    def incomplete():
        it.body = bytes(body)
        if it.verdict != MUST_REFUSE:
            it.verdict = INCOMPLETE
        it.incomplete_in = "body"
        it.end = None
        return it

    while True:
        le = data.find(b"\r\n", p)
        if le < 0:
            # maybe already visibly malformed (bare LF / junk in the partial size line)?
            part = data[p:]
            semi = part.find(b";")
            sz = part if semi < 0 else part[:semi]
            if any(c not in HEXDIGS for c in sz.rstrip(b"\r")):
                it.notes.append("partial-size-line-already-bad")
            return incomplete()
        line = data[p:le]
        semi = line.find(b";")
        size_b, ext = (line, b"") if semi < 0 else (line[:semi], line[semi:])
        if not (len(size_b) > 0 and all(c in HEXDIGS for c in size_b)):
            it.body = bytes(body)
            return it.refuse("chunk-size")
        es = chunk_ext_status(ext)
        if es == "bad":
            it.body = bytes(body)
            return it.refuse("chunk-ext")
        if es == "bws":
            it.gray("chunk-ext-bws")
        size = int(size_b, 16)
        p = le + 2
        if size == 0:
            break
        if p + size > n:
            body += data[p:]
            return incomplete()
        body += data[p:p + size]
        p += size
        if p + 2 > n:
            return incomplete()   # judged when both terminator bytes are there
        if data[p:p + 2] != b"\r\n":
            it.body = bytes(body)
            return it.refuse("chunk-terminator")
        p += 2
    # trailer section: *( field-line CRLF ) CRLF -- judged once it is complete (like the header section)
    if data[p:p + 2] != b"\r\n" and data.find(b"\r\n\r\n", p) < 0:
        return incomplete()
    while True:
        le = data.find(b"\r\n", p)
        if le < 0:
            return incomplete()
        ln = data[p:le]
        p = le + 2
        if ln == b"":
            break
        if ln[0:1] in (b" ", b"\t") and it.trailers:
            it.gray("trailer-obs-fold")
            continue
        if not _field_line_ok(ln):
            it.body = bytes(body)
            return it.refuse("trailer-line")
        it.trailers.append(ln)
    it.body = bytes(body)
    it.end = p
    it.chunk_wire_len = p - start
    return it
