#!/venv/bin/python
"""Regenerate MANIFEST.json from the property modules that exist (developer tool)."""
import importlib
import json
import os
import sys

ROOT = os.path.dirname(os.path.dirname(os.path.abspath(__file__)))
sys.path.insert(0, ROOT)
sys.path.insert(0, "/repo/src")

props = [json.loads(l) for l in open(os.path.join(ROOT, "properties.jsonl"))]
NA_REASON = {}  # pid -> reason (properties deliberately not claimed)
NA_FILE = os.path.join(ROOT, "tools", "not_applicable.json")
if os.path.exists(NA_FILE):
    NA_REASON = json.load(open(NA_FILE))

checks = []
na = []
for p in props:
    pid = p["id"]
    path = os.path.join(ROOT, "vf", "props", pid.lower() + ".py")
    if pid in NA_REASON or not os.path.exists(path):
        na.append({"property_id": pid,
                   "reason": NA_REASON.get(pid, "check not built yet in this phase (no machinery registered); see DESIGN.md section 5 for the planned design")})
        continue
    mod = importlib.import_module("vf.props." + pid.lower())
    checks.append({
        "property_id": pid,
        "quick_cmd": "./check %s quick" % pid,
        "thorough_cmd": "./check %s thorough" % pid,
        "evidence_file": "evidence/%s.json" % pid,
        "replay_cmd_template": "./check %s --replay {path}" % pid,
        "engine": getattr(mod, "ENGINE", "vf"),
        "level_claimed": {
            "category": mod.LEVEL,
            "text": getattr(mod, "LEVEL_TEXT", "generated-input search against an explicit oracle; bounded-exhaustive sub-spaces are marked exhaustive in the evidence; nothing beyond what was explored is claimed"),
            "design_ref": "DESIGN.md section 5, " + pid,
        },
        "level_note": "; ".join(getattr(mod, "ASSUMPTIONS", [])) or "trusted base: CPython, Hypothesis, the harness and its reference models",
        "technique": mod.TECHNIQUE,
    })

man = {
    "version": 1,
    "setup_cmd": "./setup.sh",
    "hooks": {
        "guard": "WAITRESS_VERIF",
        "enable": "no source hooks are needed: checks import $VERIF_REPO/src (default /repo/src) directly and monkey-patch module attributes from the harness side; WAITRESS_VERIF=1 is exported by ./check but no code in /repo reads it",
        "baseline_off_cmd": "cd /repo && /venv/bin/python -m pytest -ra -q -p no:cacheprovider --timeout=900 --continue-on-collection-errors",
        "source_commits": [],
        "add_only": True,
    },
    "engines": [
        {"name": "vf", "path": "vf/", "serves_properties": [c["property_id"] for c in checks],
         "kind_free_text": "property-based testing / fuzzing harness: Hypothesis generators + bounded-exhaustive enumerations, reference models (refhttp), in-process simulated network (simnet) and baton thread scheduler (simsched) around the real waitress code"},
    ],
    "checks": checks,
    "not_applicable": na,
    "notes": "Every check: ./check <ID> quick|thorough; replay: ./check <ID> --replay <file>. Exit 0 held / 1 VIOLATION / 2 harness error. Known findings are listed in known_findings.json (never written at run time).",
}
with open(os.path.join(ROOT, "MANIFEST.json"), "w") as f:
    json.dump(man, f, indent=1)
print("claimed:", [c["property_id"] for c in checks])
print("not_applicable:", [n["property_id"] for n in na])
