#!/bin/sh
# developer tool: negative controls - changes to waitress that keep every listed property (wording of messages and log lines, shipped
# defaults, order of independent statements, order of response header lines, order in which ready descriptors are served).
# Every check must stay quiet on them:  tools/run_controls.sh [ID ...]
cd "$(dirname "$0")/.." || exit 2
ids="${*:-$(/venv/bin/python -c "import json;print(' '.join(c['property_id'] for c in json.load(open('MANIFEST.json'))['checks']))")}"
for p in controls/*.diff; do
  for id in $ids; do
    out=$(tools/mutcheck.sh "$p" "$id" quick 2>&1)
    echo "$(basename $p) $id $(echo "$out" | grep -o 'exit=[a-z0-9-]*' | tail -1) $(echo "$out" | grep '^FAIL' | head -1 | cut -c1-120)"
  done
done
