#!/bin/sh
# developer tool: run seeded mutants against the check of their property; one line per mutant
# usage: tools/seeded_matrix.sh [glob-of-seeded-dir-names]      (default: all)
cd "$(dirname "$0")/.." || exit 2
pat="${1:-*}"
for d in seeded/$pat/; do
  n=$(basename $d); id=${n%%-*}
  out=$(VERIF_SHRINK_BUDGET=${VERIF_SHRINK_BUDGET:-3} VERIF_NPROC=16 MUT_LINES=1 tools/mutcheck.sh $d/patch.diff $id quick 2>&1)
  rc=$(echo "$out" | grep -o "exit=[a-z0-9-]*" | tail -1)
  sig=$(echo "$out" | grep "^FAIL" | head -1 | cut -c6-90)
  echo "$n $rc $sig"
done
