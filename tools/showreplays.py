#!/venv/bin/python
import json, sys, glob, os
pid = sys.argv[1]
for f in sorted(glob.glob('/verif/replays/%s-*.json' % pid), key=os.path.getmtime):
    j = json.load(open(f))
    c = j['case']
    print("==", j['signature'], 'x%d' % j['count_in_run'])
    print("   case:", json.dumps(c)[:int(sys.argv[2]) if len(sys.argv) > 2 else 500])
    print("   detail:", j['detail'][:400])
