#!/bin/sh
# developer tool: tools/mutcheck.sh <patch.diff> <ID> [tier]   -> runs ./check <ID> against a scratch copy of /repo with the patch applied
# prints the check's last lines and "MUT-RESULT <patch> <ID> exit=<n>"; scratch copy is removed afterwards.
patch="$(realpath "$1")"; id="$2"; tier="${3:-quick}"
d="$(mktemp -d /tmp/mut.XXXXXX)"
mkdir -p "$d/repo" && cp -r /repo/src /repo/docs "$d/repo/" 2>/dev/null
( cd "$d/repo" && git init -q . && git apply --whitespace=nowarn "$patch" ) || { echo "MUT-RESULT $1 $id exit=apply-failed"; rm -rf "$d"; exit 3; }
cd "$(dirname "$0")/.." || exit 2
VERIF_REPO="$d/repo" VERIF_EVIDENCE_DIR="$d/evidence" VERIF_REPLAY_DIR="$d/replays" ./check "$id" "$tier" > "$d/out.txt" 2>&1
rc=$?
grep -E "^(FAIL|VIOLATION|KNOWN-FINDING|HARNESS)" "$d/out.txt" | cut -c1-300 | head -${MUT_LINES:-6}
tail -1 "$d/out.txt" | cut -c1-300
echo "MUT-RESULT $1 $id exit=$rc"
rm -rf "$d"
exit 0
