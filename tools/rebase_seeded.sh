#!/bin/sh
# Developer tool: re-express seeded/<id>/patch.diff against /repo's current HEAD (after a fix commit moved
# its context).  Works in a scratch export outside /repo and /verif; prints the new diff for review.
set -e
id=$1
V=$(cd "$(dirname "$0")/.." && pwd)
d=$(mktemp -d /tmp/rb.XXXXXX)
trap 'rm -rf $d' EXIT
git -C /repo archive HEAD | tar -x -C $d
cd $d && git init -q . && git add -A && git -c user.email=a@b -c user.name=n commit -qm base
patch -p1 --fuzz=3 --no-backup-if-mismatch < $V/seeded/$id/patch.diff
find . -name '*.orig' -delete
git diff > $V/seeded/$id/patch.diff
cat $V/seeded/$id/patch.diff
