#!/venv/bin/python
"""Developer tool: every 'fixed' entry of known_findings.json must (a) replay clean on /repo and (b) replay as a
VIOLATION on a scratch copy of /repo with that fix commit reverted (so the witness would report the defect if it returned)."""
import json, os, shutil, subprocess, sys, tempfile
V = os.path.dirname(os.path.dirname(os.path.abspath(__file__)))
kf = json.load(open(os.path.join(V, "known_findings.json")))
ok = True
for ent in kf["fixed"]:
    if "witness" not in ent:
        continue
    d = tempfile.mkdtemp(prefix="fa.")
    try:
        subprocess.run("git -C /repo archive HEAD | tar -x -C %s" % d, shell=True, check=True)
        if ent.get("revert_patch"):
            cmd = "cd %s && git init -q . && git apply --whitespace=nowarn %s" % (d, os.path.join(V, ent["revert_patch"]))
        else:
            cmd = "cd %s && git init -q . && git -C /repo diff %s~1 %s | git apply -R --whitespace=nowarn" % (d, ent["commit"], ent["commit"])
        p = subprocess.run(cmd, shell=True, capture_output=True, text=True)
        if p.returncode != 0:
            print("SKIP (revert does not apply cleanly)", ent["commit"], ent["property"], p.stderr.strip()[:100])
            continue
        env = dict(os.environ, VERIF_REPO=d, VERIF_EVIDENCE_DIR=d + "/e", VERIF_REPLAY_DIR=d + "/r")
        a = subprocess.run(["./check", ent["property"], "--replay", ent["witness"]], cwd=V, env=env, capture_output=True, text=True)
        b = subprocess.run(["./check", ent["property"], "--replay", ent["witness"]], cwd=V, capture_output=True, text=True)
        good = a.returncode == 1 and b.returncode == 0
        ok &= good
        print("%s %s %s reverted:exit=%d current:exit=%d  %s" % ("OK  " if good else "BAD ", ent["commit"], ent["property"], a.returncode, b.returncode, os.path.basename(ent["witness"])))
        if not good:
            print((a.stdout + a.stderr)[-400:])
    finally:
        shutil.rmtree(d, ignore_errors=True)
sys.exit(0 if ok else 1)
