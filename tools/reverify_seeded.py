#!/venv/bin/python
"""Developer tool: re-confirm seeded/<id>/ against /repo's current HEAD (after a fix commit or a rebase of
the patch): scratch export, apply, repository tests must pass, demo must fail with the patch and pass on /repo.

usage: tools/reverify_seeded.py <id> [<id> ...] | --all
"""
import json
import os
import shutil
import subprocess
import sys
import tempfile
from concurrent.futures import ThreadPoolExecutor

VERIF = os.path.dirname(os.path.dirname(os.path.abspath(__file__)))


def sh(cmd, cwd=None, env=None, timeout=900):
    e = dict(os.environ)
    e.pop("PYTHONPATH", None)
    if env:
        e.update(env)
    p = subprocess.run(cmd, shell=True, cwd=cwd, env=e, stdout=subprocess.PIPE, stderr=subprocess.STDOUT, timeout=timeout, text=True, errors="replace")
    return p.returncode, p.stdout


def verify(sid):
    src = os.path.join(VERIF, "seeded", sid)
    patch, demo = os.path.join(src, "patch.diff"), os.path.join(src, "demo.py")
    d = tempfile.mkdtemp(prefix="rv.")
    try:
        sh("git -C /repo archive HEAD | tar -x -C %s" % d)
        rc, out = sh("git init -q . && git apply --whitespace=nowarn %s" % patch, cwd=d)
        if rc != 0:
            return "%s: NOAPPLY %s" % (sid, out.strip()[:160])
        rc, out = sh("/venv/bin/python -m pytest -q -p no:cacheprovider -x tests 2>&1 | tail -3", cwd=d, env={"PYTHONPATH": d + "/src"})
        tests_ok = " passed" in out and "failed" not in out and "error" not in out.lower()
        rc_with, _ = sh("/venv/bin/python %s" % demo, cwd=d, env={"PYTHONPATH": d + "/src"}, timeout=180)
        rc_without, _ = sh("/venv/bin/python %s" % demo, cwd=d, env={"PYTHONPATH": "/repo/src"}, timeout=180)
        status = {"tests_pass_with_patch": tests_ok, "demo_exit_with_patch": rc_with, "demo_exit_on_current_repo": rc_without,
                  "repo_head": sh("git -C /repo rev-parse --short HEAD")[1].strip(), "tests_tail": out.strip().splitlines()[-1] if out.strip() else ""}
        ok = tests_ok and rc_with != 0 and rc_without == 0
        if ok:
            mp = os.path.join(src, "meta.json")
            meta = json.load(open(mp))
            status["rebased_onto_fix_commits"] = meta.get("confirmed", {}).get("rebased_onto_fix_commits", False) or meta.get("confirmed", {}).get("repo_head") != status["repo_head"]
            meta["confirmed"] = status
            json.dump(meta, open(mp, "w"), indent=1)
        return "%s: %s %s" % (sid, "CONFIRMED" if ok else "REJECTED", json.dumps(status))
    finally:
        shutil.rmtree(d, ignore_errors=True)


if __name__ == "__main__":
    ids = sys.argv[1:]
    if ids == ["--all"]:
        ids = sorted(os.listdir(os.path.join(VERIF, "seeded")))
    with ThreadPoolExecutor(5) as ex:
        for r in ex.map(verify, ids):
            print(r, flush=True)
