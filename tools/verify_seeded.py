#!/venv/bin/python
"""Developer tool: confirm a sub-agent's seeded change before keeping it under /verif/seeded/.

usage: tools/verify_seeded.py <ID> [<ID> ...]        (reads /tmp/wt/<ID>/out/<x>/)

For each candidate: scratch copy of /repo's current tree, apply the patch, run the repository's
test suite there (must pass), run the demo there (must fail), run the demo against /repo (must
pass).  Confirmed candidates are copied to /verif/seeded/<ID>-<x>/ with meta.json extended.
"""
import json
import os
import shutil
import subprocess
import sys
import tempfile

VERIF = os.path.dirname(os.path.dirname(os.path.abspath(__file__)))
BASE = os.environ.get("SEED_BASE", "/tmp/wt")      # where the sub-agents' out/<x>/ directories are
TAG = os.environ.get("SEED_TAG", "")               # e.g. "2" for the second round: seeded/<ID>-2a


def sh(cmd, cwd=None, env=None, timeout=600):
    e = dict(os.environ)
    e.pop("PYTHONPATH", None)
    if env:
        e.update(env)
    p = subprocess.run(cmd, shell=True, cwd=cwd, env=e, stdout=subprocess.PIPE, stderr=subprocess.STDOUT,
                       timeout=timeout, text=True, errors="replace")
    return p.returncode, p.stdout


def verify(pid, x):
    src = "%s/%s/out/%s" % (BASE, pid, x)
    patch = os.path.join(src, "patch.diff")
    demo = os.path.join(src, "demo.py")
    if not (os.path.exists(patch) and os.path.exists(demo)):
        return "%s-%s: missing files" % (pid, x)
    d = tempfile.mkdtemp(prefix="sv.")
    try:
        rc, out = sh("git -C /repo archive HEAD | tar -x -C %s" % d)
        rc, out = sh("git init -q . && git add -A && git -c user.email=a@b -c user.name=n commit -qm base && git apply --whitespace=nowarn %s" % patch, cwd=d)
        if rc != 0:
            rc2, out2 = sh("patch -p1 --fuzz=3 < %s" % patch, cwd=d)
            if rc2 != 0:
                return "%s-%s: patch does not apply to the current tree: %s" % (pid, x, out.strip()[:200])
            sh("git diff > %s/patch.rebased.diff" % d, cwd=d)
            patch_used = "%s/patch.rebased.diff" % d
            rebased = True
        else:
            patch_used = patch
            rebased = False
        rc, out = sh("/venv/bin/python -m pytest -q -p no:cacheprovider -x tests 2>&1 | tail -3", cwd=d,
                     env={"PYTHONPATH": d + "/src"})
        tests_ok = " passed" in out and "failed" not in out and "error" not in out.lower()
        rc_with, out_with = sh("/venv/bin/python %s" % demo, cwd=d, env={"PYTHONPATH": d + "/src"}, timeout=120)
        rc_without, out_without = sh("/venv/bin/python %s" % demo, cwd=src, env={"PYTHONPATH": "/repo/src"}, timeout=120)
        status = {"tests_pass_with_patch": tests_ok, "demo_exit_with_patch": rc_with,
                  "demo_exit_on_current_repo": rc_without, "rebased_onto_fix_commits": rebased,
                  "repo_head": sh("git -C /repo rev-parse --short HEAD")[1].strip(),
                  "tests_tail": out.strip().splitlines()[-1] if out.strip() else ""}
        ok = tests_ok and rc_with != 0 and rc_without == 0
        if ok:
            dst = os.path.join(VERIF, "seeded", "%s-%s%s" % (pid, TAG, x))
            os.makedirs(dst, exist_ok=True)
            shutil.copy(patch_used, os.path.join(dst, "patch.diff"))
            shutil.copy(demo, os.path.join(dst, "demo.py"))
            meta = {}
            try:
                meta = json.load(open(os.path.join(src, "meta.json")))
            except Exception:
                pass
            meta["property"] = pid
            meta["confirmed"] = status
            meta["what_i_ran"] = ("scratch export of /repo HEAD + git apply patch.diff; pytest tests (must pass); "
                                  "demo.py with PYTHONPATH=<scratch>/src (must exit != 0); demo.py with "
                                  "PYTHONPATH=/repo/src (must exit 0)")
            json.dump(meta, open(os.path.join(dst, "meta.json"), "w"), indent=1)
        return "%s-%s: %s %s" % (pid, x, "CONFIRMED" if ok else "REJECTED", json.dumps(status))
    finally:
        shutil.rmtree(d, ignore_errors=True)


if __name__ == "__main__":
    from concurrent.futures import ThreadPoolExecutor
    todo = []
    for pid in sys.argv[1:]:
        base = "%s/%s/out" % (BASE, pid)
        if os.path.isdir(base):
            for x in sorted(os.listdir(base)):
                todo.append((pid, x))
    with ThreadPoolExecutor(6) as ex:
        for r in ex.map(lambda a: verify(*a), todo):
            print(r, flush=True)
