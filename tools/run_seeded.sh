#!/bin/sh
# developer tool: tools/run_seeded.sh <ID> [tier] [check-id]  -> run check against every seeded/<ID>-*/patch.diff in parallel
id="$1"; tier="${2:-quick}"; chk="${3:-$1}"
cd "$(dirname "$0")/.." || exit 2
for d in seeded/$id-*; do
  [ -f "$d/patch.diff" ] || continue
  ( MUT_LINES=2 VERIF_NPROC=${VERIF_NPROC:-8} tools/mutcheck.sh "$d/patch.diff" "$chk" "$tier" > "/tmp/seeded.$chk.$(basename $d).out" 2>&1 ) &
done
wait
for d in seeded/$id-*; do echo "--- $d"; cat "/tmp/seeded.$chk.$(basename $d).out"; done
