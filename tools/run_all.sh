#!/bin/sh
# developer tool: tools/run_all.sh [tier] [seed...]  -> run every claimed check sequentially, print the summary lines
cd "$(dirname "$0")/.." || exit 2
tier="${1:-quick}"; shift
seeds="${*:-1}"
for sd in $seeds; do
  for id in $(/venv/bin/python -c "import json;print(' '.join(c['property_id'] for c in json.load(open('MANIFEST.json'))['checks']))"); do
    VERIF_SEED=$sd ./check $id $tier > /tmp/runall.$id.$sd.out 2>&1; rc=$?
    echo "rc=$rc $(tail -1 /tmp/runall.$id.$sd.out | cut -c1-200)"
    grep -E "^(VIOLATION|KNOWN-FINDING|HARNESS)" /tmp/runall.$id.$sd.out | cut -c1-200 | head -5
  done
done
