#!/venv/bin/python
"""Developer tool: rebuild the table of DESIGN.md section 8 from seeded/MATRIX.txt and seeded/<id>/meta.json.

usage: tools/render_matrix.py            (rewrites the block between the MATRIX-BEGIN / MATRIX-END markers of DESIGN.md)
"""
import json
import os

V = os.path.dirname(os.path.dirname(os.path.abspath(__file__)))
rows = []
for line in open(os.path.join(V, "seeded", "MATRIX.txt"), newline="\n"):
    parts = line.rstrip("\n").split(" ", 2)
    if len(parts) < 2:
        continue
    mid, rc = parts[0], parts[1]
    sig = parts[2] if len(parts) > 2 else ""
    meta = json.load(open(os.path.join(V, "seeded", mid, "meta.json")))
    summ = meta.get("summary", "").replace("|", "\\|").replace("\n", " ")
    if len(summ) > 170:
        summ = summ[:167] + "..."
    sig = sig.split(" (x")[0].strip().replace("|", "\\|")
    sig = "".join(ch if 32 <= ord(ch) < 127 else "?" for ch in sig)
    rows.append((mid, summ, sig or "(see run output)", rc))
out = ["| change | what it does (sub-agent's summary, shortened) | first signature reported by `./check <ID> quick` |", "|---|---|---|"]
for mid, summ, sig, rc in rows:
    out.append("| %s | %s | `%s`%s |" % (mid, summ, sig, "" if rc == "exit=1" else " **(%s)**" % rc))
p = os.path.join(V, "DESIGN.md")
s = open(p).read()
a, b = s.index("<!-- MATRIX-BEGIN -->"), s.index("<!-- MATRIX-END -->")
s = s[:a] + "<!-- MATRIX-BEGIN -->\n" + "\n".join(out) + "\n" + s[b:]
open(p, "w").write(s)
print(len(rows), "rows;", sum(1 for r in rows if r[3] == "exit=1"), "reported")
